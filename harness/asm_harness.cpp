// asm_harness.cpp -- drives the real hexasm Lexer/Parser/CodeGen (header-only, compiled from /repo's working
// tree) exactly as hexasm.cpp's main() does, and dumps everything observable in a canonical text form.
//   asm_harness batch <casefile>     casefile: repeated "<len>\n<len bytes>"; output per case:
//        CASE <i>\n ... \nEND <i>\n   (flushed, so a crash is attributable to the case after the last END)
// Output for one case:
//   ACCEPT | REJECT <where>: <message> | REJECT-STD <message>
//   L <listing line>            (emitProgramText, verbatim)
//   SYM <name> <offset>         (debugInfo)
//   FILE <n> <hex bytes>        (the file emitBin writes)
#include <cassert>
#include <cstdint>
#include <cstdio>
#include <sstream>
#include <iostream>
#include <fstream>
#include <map>
#include <vector>
#include <memory>
#include <string>
#include <boost/format.hpp>
#define private public
#define protected public
#define class struct
#include "hexasm.hpp"
#undef private
#undef protected
#undef class

static void runCase(const std::string &src, const std::string &tmpbin) {
  hexasm::Lexer lexer;
  hexasm::Parser parser(lexer);
  try {
    lexer.loadBuffer(src);
    auto program = parser.parseProgram();
    hexasm::CodeGen codeGen(program);
    std::ostringstream text;
    codeGen.emitProgramText(text);
    std::remove(tmpbin.c_str());
    codeGen.emitBin(tmpbin);
    std::cout << "ACCEPT\n";
    std::istringstream ts(text.str());
    std::string line;
    while (std::getline(ts, line)) std::cout << "L " << line << "\n";
    for (auto &p : codeGen.debugInfo) std::cout << "SYM " << p.first << " " << p.second << "\n";
    std::ifstream f(tmpbin, std::ios::binary);
    std::stringstream ss; ss << f.rdbuf();
    std::string b = ss.str();
    std::cout << "FILE " << b.size();
    static const char *hx = "0123456789abcdef";
    std::string h;
    for (unsigned char c : b) { h.push_back(' '); h.push_back(hx[c >> 4]); h.push_back(hx[c & 15]); }
    std::cout << h << "\n";
  } catch (const hexutil::Error &e) {
    std::cout << "REJECT " << (e.hasLocation() ? e.getLocation().str() : std::string("noloc")) << ": " << e.what() << "\n";
  } catch (const std::exception &e) {
    std::cout << "REJECT-STD " << e.what() << "\n";
  }
}

// sweep <mnemonic token name> <start> <count> <stride>: drive the real InstrImm::getSize + CodeGen + emitProgramBin over
// a range of the 32-bit value space and decode every emitted instruction with the ISA's operand rule.
static hexasm::Token tokenByName(const std::string &n) {
  using T = hexasm::Token;
  const std::pair<const char*, T> tab[] = {{"LDAM",T::LDAM},{"LDBM",T::LDBM},{"STAM",T::STAM},{"LDAC",T::LDAC},{"LDBC",T::LDBC},{"LDAP",T::LDAP},
    {"LDAI",T::LDAI},{"LDBI",T::LDBI},{"STAI",T::STAI},{"BR",T::BR},{"BRZ",T::BRZ},{"BRN",T::BRN}};
  for (auto &p : tab) if (n == p.first) return p.second;
  throw std::runtime_error("mnemonic");
}
static int sweep(int argc, char **argv) {
  hexasm::Token tok = tokenByName(argv[2]);
  unsigned opc = hexasm::tokenToInstrOpc(tok);
  uint64_t start = strtoull(argv[3], 0, 0), count = strtoull(argv[4], 0, 0), stride = strtoull(argv[5], 0, 0);
  const uint64_t B = 4096;
  uint64_t bad = 0, done = 0, firstBad = 0; std::string firstBytes;
  uint64_t bylen[10] = {0};
  for (uint64_t base = 0; base < count; base += B) {
    std::vector<std::unique_ptr<hexasm::Directive>> program;
    uint64_t n = std::min(B, count - base);
    for (uint64_t k = 0; k < n; k++) {
      uint32_t u = (uint32_t)(start + (base + k) * stride);
      program.push_back(std::make_unique<hexasm::InstrImm>(tok, (int)u));
    }
    hexasm::CodeGen cg(program);
    std::ostringstream out;
    cg.emitProgramBin(out);
    std::string img = out.str();
    size_t pos = 0;
    for (uint64_t k = 0; k < n; k++) {
      uint32_t u = (uint32_t)(start + (base + k) * stride);
      uint32_t oreg = 0; size_t p0 = pos; bool ok = false; unsigned op = 0;
      for (int j = 0; j < 9 && pos < img.size(); j++) {
        unsigned b = (unsigned char)img[pos++];
        oreg |= b & 15; op = b >> 4;
        if (op == 14) oreg <<= 4; else if (op == 15) oreg = 0xFFFFFF00u | (oreg << 4); else { ok = true; break; }
      }
      // exactly: zero or more prefixes then the instruction byte; operand delivered == value; NFIX only first
      bool shape = ok && op == opc && oreg == u && (pos - p0) >= 1 && (pos - p0) <= 8 && (pos - p0) == program[k]->getSize();
      for (size_t q = p0 + 1; q + 1 < pos && shape; q++) if (((unsigned char)img[q] >> 4) != 14) shape = false;
      if (shape) { bylen[pos - p0]++; }
      else { if (!bad) { firstBad = u; firstBytes = img.substr(p0, std::min<size_t>(10, img.size() - p0)); } bad++; pos = p0 + program[k]->getSize(); }
      done++;
    }
  }
  std::cout << "SWEEP " << argv[2] << " done=" << done << " bad=" << bad;
  if (bad) { std::cout << " first=" << (int32_t)firstBad << " bytes="; for (unsigned char c : firstBytes) std::cout << (boost::format("%02x") % (unsigned)c); }
  std::cout << " bylen";
  for (int i = 1; i <= 8; i++) std::cout << " " << bylen[i];
  std::cout << "\n";
  return 0;
}

int main(int argc, char **argv) {
  if (argc >= 6 && std::string(argv[1]) == "sweep") return sweep(argc, argv);
  if (argc < 3 || std::string(argv[1]) != "batch") { std::cerr << "usage: asm_harness batch <casefile>\n"; return 2; }
  std::ifstream f(argv[2], std::ios::binary);
  size_t start = argc > 3 ? strtoull(argv[3], 0, 0) : 0;
  size_t i = 0;
  std::string lenline;
  while (std::getline(f, lenline)) {
    size_t len = strtoull(lenline.c_str(), 0, 10);
    std::string src(len, '\0');
    f.read(&src[0], len);
    if (i >= start) {
      std::cout << "CASE " << i << "\n" << std::flush;
      runCase(src, "harness_out.bin");
      std::cout << "END " << i << "\n" << std::flush;
    }
    i++;
  }
  return 0;
}
