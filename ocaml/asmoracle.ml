(* asmoracle: run the extracted spec validators of AsmSpec.v (check_image / check_symtab / check_listing) on the
   REAL assembler's output.  Input (text file), repeated per case:
     PROG <n>          then n directive lines:  D <v> | L id|func|proc <name> | I <MNEM> <v> | R <MNEM> <name> | O <OP>
     IMAGE <header_words> <nbytes> <hex bytes...>
     SYMS <k>          then k lines: <name> <offset>
     LIST <m>          then m lines: I <off> <MNEM> <operand> <size> | O <off> <OP> <size> | D <off> <v> <size> | B <off> <size> | P <size>
   Output per case:  RESULT <i> image=<ok|FAIL> symtab=<ok|FAIL|skip> listing=<ok|FAIL|skip> *)
open Hvutil
module SL = Stdlib.List
module SS = Stdlib.String
module P = Stdlib.Printf
let zi = z_of_int and iz = int_of_z

let tok_of (s : string) : AsmModel.token =
  match s with
  | "LDAM" -> AsmModel.TLDAM | "LDBM" -> AsmModel.TLDBM | "STAM" -> AsmModel.TSTAM | "LDAC" -> AsmModel.TLDAC
  | "LDBC" -> AsmModel.TLDBC | "LDAP" -> AsmModel.TLDAP | "LDAI" -> AsmModel.TLDAI | "LDBI" -> AsmModel.TLDBI
  | "STAI" -> AsmModel.TSTAI | "BR" -> AsmModel.TBR | "BRZ" -> AsmModel.TBRZ | "BRN" -> AsmModel.TBRN
  | "BRB" -> AsmModel.TBRB | "SVC" -> AsmModel.TSVC | "ADD" -> AsmModel.TADD | "SUB" -> AsmModel.TSUB
  | _ -> failwith ("mnemonic " ^ s)
let is_rel (s : string) = SL.mem s ["LDAP"; "LDAI"; "LDBI"; "STAI"; "BR"; "BRN"; "BRZ"]
let opc_of (s : string) : int =
  match AsmModel.token_opc (tok_of s) with Some c -> iz c | None -> failwith "opc"
let opr_of (s : string) : int =
  match AsmModel.opr_opc (tok_of s) with Some c -> iz c | None -> failwith "opr"

let main () =
  let ic = open_in_bin Sys.argv.(2) in
  let line () = input_line ic in
  let case = ref 0 in
  (try while true do
    let hd = tokens (line ()) in
    (match hd with
     | ["PROG"; n] ->
         let n = int_of_string n in
         let prog = SL.init n (fun _ ->
           match tokens (line ()) with
           | ["D"; v] -> AsmModel.DData (zi (int_of_string v))
           | ["L"; "id"; nm] -> AsmModel.DLabel (AsmModel.LId, coq_of_ostring nm)
           | ["L"; "func"; nm] -> AsmModel.DLabel (AsmModel.LFunc, coq_of_ostring nm)
           | ["L"; "proc"; nm] -> AsmModel.DLabel (AsmModel.LProc, coq_of_ostring nm)
           | ["I"; m; v] -> AsmModel.DImm (tok_of m, zi (int_of_string v))
           | ["R"; m; nm] -> AsmModel.DRef (tok_of m, coq_of_ostring nm, is_rel m)
           | ["O"; o] -> AsmModel.DOpr (tok_of o)
           | _ -> failwith "bad directive line") in
         let image, header =
           match tokens (line ()) with
           | "IMAGE" :: hw :: nb :: bytes -> (SL.map (fun h -> zi (int_of_string ("0x" ^ h))) bytes, int_of_string hw)
           | _ -> failwith "IMAGE expected" in
         let syms =
           match tokens (line ()) with
           | ["SYMS"; "skip"] -> None
           | ["SYMS"; k] -> Some (SL.init (int_of_string k) (fun _ ->
               match tokens (line ()) with [nm; off] -> (coq_of_ostring nm, zi (int_of_string off)) | _ -> failwith "sym line"))
           | _ -> failwith "SYMS expected" in
         let listing =
           match tokens (line ()) with
           | ["LIST"; "skip"] -> None
           | ["LIST"; m] -> Some (SL.init (int_of_string m) (fun _ ->
               match tokens (line ()) with
               | ["I"; off; mn; v; sz] -> AsmSpec.LInstr (zi (int_of_string off), zi (opc_of mn), zi (int_of_string v), zi (int_of_string sz))
               | ["O"; off; o; sz] -> AsmSpec.LOpr (zi (int_of_string off), zi (opr_of o), zi (int_of_string sz))
               | ["D"; off; v; sz] -> AsmSpec.LData (zi (int_of_string off), zi (int_of_string v), zi (int_of_string sz))
               | ["B"; off; sz] -> AsmSpec.LLabel (zi (int_of_string off), zi (int_of_string sz))
               | ["P"; sz] -> AsmSpec.LPadding (zi (int_of_string sz))
               | _ -> failwith "listing line"))
           | _ -> failwith "LIST expected" in
         let r1 = AsmSpec.check_image prog image (zi header) in
         let r2 = match syms with None -> "skip" | Some s -> if AsmSpec.check_symtab prog image s then "ok" else "FAIL" in
         let r3 = match listing with None -> "skip" | Some l -> if AsmSpec.check_listing l image then "ok" else "FAIL" in
         P.printf "RESULT %d image=%s symtab=%s listing=%s\n" !case (if r1 then "ok" else "FAIL") r2 r3;
         incr case
     | [] -> ()
     | _ -> failwith "PROG expected")
  done with End_of_file -> ());
  close_in ic
