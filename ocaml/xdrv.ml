(* xdrv.ml -- drivers for the X spec (XSem.run) and for ISA runs with the C08 monitor (IsaMon).

   hvmain xsem <prog.sx> [steps depth]      stdin: one line per input = hex bytes ("-" = empty input)
       one line per input:  behaviour exit=<u32> consumed=<n> out=<stream>:<byte>,...
                         |  undef <Reason> [detail]
   hvmain xisa <a.out> <maxsteps> [<data_lo> <data_hi> <exit_pc>]     stdin: as above
       one line per input:  END <exit|cut|stuck:...> code=<u32> steps=<n> consumed=<n> minsp=<w> out=... | MON <ok|off|viol ...>
       With the three layout numbers (word range of the DATA directives, byte address of _exit) the
       extracted monitor IsaMon.state_ok / IsaMon.acc_ok is evaluated on every visited state / every
       access of every executed instruction; the first violation is printed.

   Machine format of programs (printed by tools/xcommon.py):
     (program (globals D..) (procs P..))      D = (val x E) | (var x) | (array x E)
     P = (proc|func x (formals F..) (locals D..) S)     F = (val|array|proc|func x)
     S = (skip) (stop) (return E) (if E S S) (while E S) (seq S..) (assign x E) (assignsub a E E) (call f E..) (sys n E..)
     E = (num n) (true) (false) (str b..) (var x) (sub a E) (call f E..) (sys n E..) (neg E) (not E) (bin op E E) *)
open Hvutil
module SL = Stdlib.List
module SS = Stdlib.String
module P = Stdlib.Printf

let zi = z_of_int and iz = int_of_z

(* ---------------------------------------------------------------- strings *)
let coq_char (c : char) : Ascii.ascii =
  let n = Char.code c in
  let b i = (n lsr i) land 1 = 1 in
  Ascii.Ascii (b 0, b 1, b 2, b 3, b 4, b 5, b 6, b 7)
let coq_string (s : string) : String.string =
  let r = ref String.EmptyString in
  for i = SS.length s - 1 downto 0 do r := String.String (coq_char (SS.get s i), !r) done;
  !r
let ocaml_char (a : Ascii.ascii) : char =
  match a with Ascii.Ascii (b0, b1, b2, b3, b4, b5, b6, b7) ->
    let v b i = if b then 1 lsl i else 0 in
    Char.chr (v b0 0 + v b1 1 + v b2 2 + v b3 3 + v b4 4 + v b5 5 + v b6 6 + v b7 7)
let rec ocaml_string (s : String.string) : string =
  match s with
  | String.EmptyString -> ""
  | String.String (a, r) -> SS.make 1 (ocaml_char a) ^ ocaml_string r

(* ---------------------------------------------------------------- s-expressions *)
type sx = A of string | L of sx list

let parse_sx (text : string) : sx =
  let n = SS.length text in
  let pos = ref 0 in
  let rec skip () = if !pos < n && (match SS.get text !pos with ' ' | '\n' | '\t' | '\r' -> true | _ -> false) then (incr pos; skip ()) in
  let rec item () : sx =
    skip ();
    if !pos >= n then failwith "sx: unexpected end";
    if SS.get text !pos = '(' then begin
      incr pos;
      let items = ref [] in
      let fin = ref false in
      while not !fin do
        skip ();
        if !pos >= n then failwith "sx: missing )";
        if SS.get text !pos = ')' then (incr pos; fin := true) else items := item () :: !items
      done;
      L (SL.rev !items)
    end else begin
      let st = !pos in
      while !pos < n && (match SS.get text !pos with ' ' | '\n' | '\t' | '\r' | '(' | ')' -> false | _ -> true) do incr pos done;
      A (SS.sub text st (!pos - st))
    end in
  item ()

let bad what = failwith ("sx: bad " ^ what)
let znum (s : string) : BinNums.coq_Z = zi (int_of_string s)

let binop_of = function
  | "plus" -> XAst.Plus | "minus" -> XAst.Minus | "or" -> XAst.Or | "and" -> XAst.And | "eq" -> XAst.Eq
  | "ne" -> XAst.Ne | "ls" -> XAst.Ls | "le" -> XAst.Le | "gr" -> XAst.Gr | "ge" -> XAst.Ge | s -> bad ("operator " ^ s)

let rec expr_of (x : sx) : XAst.expr =
  match x with
  | L [A "num"; A n] -> XAst.ENum (znum n)
  | L [A "true"] -> XAst.EBool true
  | L [A "false"] -> XAst.EBool false
  | L (A "str" :: bs) -> XAst.EStr (SL.map (function A b -> znum b | _ -> bad "str") bs)
  | L [A "var"; A v] -> XAst.EVar (coq_string v)
  | L [A "sub"; A a; i] -> XAst.ESub (coq_string a, expr_of i)
  | L (A "call" :: A f :: args) -> XAst.ECall (coq_string f, SL.map expr_of args)
  | L (A "sys" :: A n :: args) -> XAst.ESys (znum n, SL.map expr_of args)
  | L [A "neg"; e] -> XAst.EUn (XAst.Neg, expr_of e)
  | L [A "not"; e] -> XAst.EUn (XAst.Not, expr_of e)
  | L [A "bin"; A o; l; r] -> XAst.EBin (binop_of o, expr_of l, expr_of r)
  | _ -> bad "expression"

let rec stmt_of (x : sx) : XAst.stmt =
  match x with
  | L [A "skip"] -> XAst.SSkip
  | L [A "stop"] -> XAst.SStop
  | L [A "return"; e] -> XAst.SReturn (expr_of e)
  | L [A "if"; c; t; e] -> XAst.SIf (expr_of c, stmt_of t, stmt_of e)
  | L [A "while"; c; b] -> XAst.SWhile (expr_of c, stmt_of b)
  | L (A "seq" :: ss) -> XAst.SSeq (SL.map stmt_of ss)
  | L [A "assign"; A v; e] -> XAst.SAssign (coq_string v, expr_of e)
  | L [A "assignsub"; A a; i; e] -> XAst.SAssignSub (coq_string a, expr_of i, expr_of e)
  | L (A "call" :: A f :: args) -> XAst.SCall (coq_string f, SL.map expr_of args)
  | L (A "sys" :: A n :: args) -> XAst.SSys (znum n, SL.map expr_of args)
  | _ -> bad "statement"

let decl_of (x : sx) : XAst.decl =
  match x with
  | L [A "val"; A v; e] -> XAst.DVal (coq_string v, expr_of e)
  | L [A "var"; A v] -> XAst.DVar (coq_string v)
  | L [A "array"; A v; e] -> XAst.DArray (coq_string v, expr_of e)
  | _ -> bad "declaration"

let formal_of (x : sx) : XAst.formal =
  match x with
  | L [A "val"; A v] -> XAst.FVal (coq_string v)
  | L [A "array"; A v] -> XAst.FArray (coq_string v)
  | L [A "proc"; A v] -> XAst.FProc (coq_string v)
  | L [A "func"; A v] -> XAst.FFunc (coq_string v)
  | _ -> bad "formal"

let proc_of (x : sx) : XAst.proc =
  match x with
  | L [A kind; A name; L (A "formals" :: fs); L (A "locals" :: ds); body] when kind = "proc" || kind = "func" ->
      { XAst.is_func = (kind = "func"); pname = coq_string name; formals = SL.map formal_of fs;
        locals = SL.map decl_of ds; body = stmt_of body }
  | _ -> bad "procedure"

let program_of (x : sx) : XAst.program =
  match x with
  | L [A "program"; L (A "globals" :: ds); L (A "procs" :: ps)] ->
      { XAst.globals = SL.map decl_of ds; procs = SL.map proc_of ps }
  | _ -> bad "program"

(* ---------------------------------------------------------------- helpers *)
let read_file (name : string) : string =
  let ic = open_in_bin name in
  let n = in_channel_length ic in
  let s = really_input_string ic n in
  close_in ic; s

let bytes_of_hex (line : string) : int list =
  let t = SS.trim line in
  if t = "-" || t = "" then [] else
  SL.init (SS.length t / 2) (fun i -> int_of_string ("0x" ^ SS.sub t (2 * i) 2))

let u32 (n : int) : int = ((n mod 4294967296) + 4294967296) mod 4294967296

let out_str (l : (int * int) list) : string =
  SS.concat "," (SL.map (fun (st, b) -> P.sprintf "%d:%d" st b) l)

let undef_str (u : XSem.undef) : string =
  match u with
  | XSem.UnassignedRead x -> "UnassignedRead " ^ ocaml_string x
  | XSem.SubscriptRange (a, i) -> P.sprintf "SubscriptRange %s %d" (ocaml_string a) (iz i)
  | XSem.ArithOverflow -> "ArithOverflow"
  | XSem.CmpDiffOverflow -> "CmpDiffOverflow"
  | XSem.OrderDependent -> "OrderDependent"
  | XSem.NoReturn -> "NoReturn"
  | XSem.WrongKindOfCall f -> "WrongKindOfCall " ^ ocaml_string f
  | XSem.MissingActual -> "MissingActual"
  | XSem.Unsupported w -> "Unsupported " ^ ocaml_string w
  | XSem.DepthExceeded -> "DepthExceeded"
  | XSem.FuelExhausted -> "FuelExhausted"

let each_input_line (f : int list -> unit) : unit =
  try while true do
    let line = input_line stdin in
    if SS.trim line <> "" then (f (bytes_of_hex line); flush stdout)
  done with End_of_file -> ()

(* ---------------------------------------------------------------- xsem *)
let xsem_main () =
  let prog = program_of (parse_sx (read_file Sys.argv.(2))) in
  let steps, depth =
    if Array.length Sys.argv >= 5 then zi (int_of_string Sys.argv.(3)), nat_of_int (int_of_string Sys.argv.(4))
    else XSem.default_steps, XSem.default_depth in
  let fuel = XSem.default_fuel in
  each_input_line (fun inp ->
    match XSem.run_fuel fuel steps depth prog (SL.map zi inp) with
    | XSem.Behaviour b ->
        P.printf "behaviour exit=%d consumed=%d out=%s\n" (u32 (iz b.XSem.exit_value)) (int_of_nat b.XSem.consumed)
          (out_str (SL.map (fun (st, by) -> (iz st, iz by)) b.XSem.outputs))
    | XSem.Undef u -> P.printf "undef %s\n" (undef_str u))

(* ---------------------------------------------------------------- xisa *)
let image_words (file : string) : int list =
  let len = SS.length file in
  let byte i = if i < len then Char.code (SS.get file i) else 0 in
  let nwords = byte 0 lor (byte 1 lsl 8) lor (byte 2 lsl 16) lor (byte 3 lsl 24) in
  SL.init nwords (fun w -> let p = 4 + 4 * w in byte p lor (byte (p+1) lsl 8) lor (byte (p+2) lsl 16) lor (byte (p+3) lsl 24))

let kind_str = function IsaMon.Fetch -> "fetch" | IsaMon.Load -> "load" | IsaMon.Store -> "store"

let xisa_main () =
  let words = image_words (read_file Sys.argv.(2)) in
  let max_steps = int_of_string Sys.argv.(3) in
  let nwords = SL.length words in
  let sp0 = match words with _ :: w1 :: _ -> w1 | _ -> 0 in
  let layout =
    if Array.length Sys.argv >= 7 then
      Some { IsaMon.data_lo = zi (int_of_string Sys.argv.(4)); data_hi = zi (int_of_string Sys.argv.(5));
             image_end = zi nwords; exit_pc = zi (int_of_string Sys.argv.(6)); sp0 = zi sp0 }
    else None in
  let zwords = SL.map zi words in
  each_input_line (fun cons ->
    let inp = ref { Isa.console = SL.map zi cons; Isa.files = (fun _ -> []) } in
    let st = ref (Isa.boot zwords) in
    let steps = ref 0 and fin = ref "" and code = ref 0 and minsp = ref sp0 in
    let out = ref [] in
    let mon = ref (match layout with Some _ -> "ok" | None -> "off") in
    let flag (msg : string) = if !mon = "ok" then mon := P.sprintf "viol step=%d pc=%d %s" !steps (iz !st.Isa.pc) msg in
    let check_state () =
      match layout with
      | Some l when !mon = "ok" ->
          if not (IsaMon.state_ok l !st) then begin
            let sp = iz (WMap.rd !st.Isa.mem (zi 1)) in
            if sp > sp0 then flag (P.sprintf "sp-above-initial sp=%d sp0=%d" sp sp0)
            else flag (P.sprintf "sp-not-restored-at-main-return sp=%d sp0=%d" sp sp0)
          end
      | _ -> () in
    let check_accesses () =
      match layout with
      | Some l when !mon = "ok" ->
          (match SL.find_opt (fun a -> not (IsaMon.acc_ok l a)) (IsaMon.accesses !st) with
           | Some (k, a) ->
               let a = iz a in
               let why =
                 if a < 0 || a >= 200000 then "outside-memory"
                 else match k with
                   | IsaMon.Fetch -> "fetch-outside-code-words"
                   | IsaMon.Store -> if a < nwords then "store-into-code-word" else "store-outside-regions"
                   | IsaMon.Load -> "load" in
               flag (P.sprintf "%s %d %s" (kind_str k) a why)
           | None -> ())
      | _ -> () in
    while !fin = "" do
      check_state ();
      if !steps >= max_steps then fin := "cut" else begin
        check_accesses ();
        match Isa.step !st !inp with
        | Isa.Undefined (Isa.BadAddress a) -> fin := P.sprintf "stuck:badaddr:%d" (iz a)
        | Isa.Undefined (Isa.BadOpcode b) -> fin := P.sprintf "stuck:badopcode:%d" (iz b)
        | Isa.Undefined (Isa.BadOpr b) -> fin := P.sprintf "stuck:badopr:%d" (iz b)
        | Isa.Undefined (Isa.BadSvc b) -> fin := P.sprintf "stuck:badsvc:%d" (iz b)
        | Isa.Ok ((s', inp'), ev) ->
            st := s'; inp := inp'; incr steps;
            let sp = iz (WMap.rd s'.Isa.mem (zi 1)) in
            if sp < !minsp then minsp := sp;
            (match ev with
             | Isa.Exit c -> fin := "exit"; code := iz c; check_state ()
             | Isa.Write (b, stt) -> out := (iz stt, iz b) :: !out
             | _ -> ())
      end
    done;
    P.printf "END %s code=%d steps=%d consumed=%d minsp=%d out=%s | MON %s\n" !fin (u32 !code) !steps
      (SL.length cons - SL.length !inp.Isa.console) !minsp (out_str (SL.rev !out)) !mon)

(* ---------------------------------------------------------------- xcg: the model of xcmp's code generator (XCodegen*.v)
   hvmain xcg <prog.sx>      stdin lines:  <proc> size=<frame size> <global>=<word address> ... #<constant>=<pool address> ...
   The program goes through XConstProp.front (constant propagation + operator rewrites: what the code generator
   reads); for the named procedure the model generates the whole procedure (XCodegenStmt.cproc: prologue, body,
   exit label 0, epilogue, then the three peephole rewrites), with the procedure's frame symbols
   (XCodegenExpr.frame_venv); body labels are numbered from 1; a global array is given as @name=<data word>.
   output:  "LDAM 2; BRZ L0; LDAC 0; L0:"   or "none" (outside the modelled fragment) or "front-error" *)
let instr_str (i : XCodegenIsa.instr) : string =
  let open XCodegenIsa in
  match i with
  | LDAM a -> P.sprintf "LDAM %d" (iz a) | LDBM a -> P.sprintf "LDBM %d" (iz a) | STAM a -> P.sprintf "STAM %d" (iz a)
  | LDAC v -> P.sprintf "LDAC %d" (iz v) | LDBC v -> P.sprintf "LDBC %d" (iz v) | LDAP l -> P.sprintf "LDAP L%d" (iz l)
  | LDAI k -> P.sprintf "LDAI %d" (iz k) | LDBI k -> P.sprintf "LDBI %d" (iz k) | STAI k -> P.sprintf "STAI %d" (iz k)
  | BR l -> P.sprintf "BR L%d" (iz l) | BRZ l -> P.sprintf "BRZ L%d" (iz l) | BRN l -> P.sprintf "BRN L%d" (iz l)
  | ADD -> "ADD" | SUB -> "SUB" | SVC -> "SVC" | BRB -> "BRB"
  | LABEL l -> P.sprintf "L%d:" (iz l)

let xcg_main () =
  let prog = program_of (parse_sx (read_file Sys.argv.(2))) in
  let fronted = match XConstProp.front prog with XConstProp.COk p -> Some p | _ -> None in
  try while true do
    let line = input_line stdin in
    if SS.trim line <> "" then begin
      match fronted, tokens line with
      | None, _ -> print_endline "front-error"
      | Some p, pname :: rest ->
          let kv = SL.map (fun s -> match SS.split_on_char '=' s with [k; v] -> (k, int_of_string v) | _ -> failwith "bad map") rest in
          let size = match SL.assoc_opt "size" kv with Some n -> n | None -> 0 in
          let gaddr (x : String.string) = match SL.assoc_opt (ocaml_string x) kv with Some a -> Some (zi a) | None -> None in
          let aaddr (x : String.string) = match SL.assoc_opt ("@" ^ ocaml_string x) kv with Some a -> Some (zi a) | None -> None in
          let pool (v : BinNums.coq_Z) = match SL.assoc_opt (P.sprintf "#%d" (iz v)) kv with Some a -> Some (zi a) | None -> None in
          let og = match SL.assoc_opt "og" kv with Some n -> n | None -> size in
          (match SL.find_opt (fun q -> ocaml_string q.XAst.pname = pname) p.XAst.procs with
           | None -> print_endline "none"
           | Some q ->
               let pinfo (x : String.string) =
                 let nm = ocaml_string x in
                 let rec find i = function
                   | [] -> None
                   | r :: rest -> if ocaml_string r.XAst.pname = nm then Some { XCodegenStmt.pf_entry = zi (100000 + i); pf_isfunc = r.XAst.is_func } else find (i + 1) rest in
                 find 0 p.XAst.procs in
               (match XCodegenStmt.cproc pinfo gaddr aaddr pool q (zi size) (zi og) with
                | Some code -> print_endline (SS.concat "; " (SL.map instr_str code))
                | None -> print_endline "none"))
      | _, [] -> ()
    end
  done with End_of_file -> ()

(* ---------------------------------------------------------------- xmc: the whole-program model compile function
   hvmain xmc <prog.sx> <opt: 0|1>      stdin: one line per procedure:  <name> <size> <nslots> <og>
                                        and optionally one line  pool <v1> <v2> ..  (the constant pool, in xcmp's order)
   XConstProp.front, then XCodegenProgram.model_compile frames opt (opt = 0: the validated image of the lowered
   code, the one C01_program_partial speaks of; opt = 1: with the peephole pass, xcmp's bytes).
   output: the image words in decimal separated by blanks, or "none" (outside the fragment / validation failed),
   or "front-error" *)
let xmc_main () =
  let prog = program_of (parse_sx (read_file Sys.argv.(2))) in
  let opt = Sys.argv.(3) = "1" in
  let tbl = ref [] and poolv = ref [] in
  (try while true do
     let line = input_line stdin in
     match tokens line with
     | "pool" :: vs -> poolv := SL.map int_of_string vs
     | [nm; a; b; c] -> tbl := (nm, (int_of_string a, int_of_string b, int_of_string c)) :: !tbl
     | _ -> ()
   done with End_of_file -> ());
  let frames (x : String.string) =
    match SL.assoc_opt (ocaml_string x) !tbl with
    | Some (a, b, c) -> Some ((zi a, zi b), zi c)
    | None -> None in
  match XConstProp.front prog with
  | XConstProp.COk p ->
      (match XCodegenProgram.model_compile { XCodegenProgram.p_frames = frames; p_pool = SL.map zi !poolv } opt p with
       | Some ws -> print_endline (SS.concat " " (SL.map (fun w -> P.sprintf "%d" (iz w)) ws))
       | None -> print_endline "none")
  | _ -> print_endline "front-error"

(* ---------------------------------------------------------------- xsemtrace: the spec run with its call sequence
   hvmain xsemtrace <prog.sx> [steps depth]     stdin: one line per input = hex bytes ("-" = empty)
   one line per input:   calls main,f0,f1,f0 | behaviour exit=.. consumed=.. out=..      (or  | undef Reason ...)
   The names are the procedures/functions whose bodies XSem starts executing, in order (main first; system calls
   are not calls).  How: the extracted open-recursion bodies XSem.eval_body / evals_body / exec_body / execs_body
   are tied into a recursion here exactly as XSem's Fixpoint does (without the fuel argument: the statement budget
   and the depth bound still apply), and every procedure body is wrapped in a one-element sequence so that the
   moment XSem.invoke hands a body to the statement executor is recognisable by physical identity.  The wrapping
   costs one budget unit per call and is otherwise neutral; the behaviour printed is that of the wrapped program. *)
let xsemtrace_main () =
  let prog = program_of (parse_sx (read_file Sys.argv.(2))) in
  let steps, depth =
    if Array.length Sys.argv >= 5 then zi (int_of_string Sys.argv.(3)), nat_of_int (int_of_string Sys.argv.(4))
    else XSem.default_steps, XSem.default_depth in
  let wrapped = SL.map (fun p -> { p with XAst.body = XAst.SSeq [p.XAst.body] }) prog.XAst.procs in
  let prog = { prog with XAst.procs = wrapped } in
  let trace = ref [] in
  let rec ev ge e s = XSem.eval_body (ev ge) (evs ge) (ex ge) ge e s
  and evs ge es s = XSem.evals_body (ev ge) (evs ge) es s
  and ex ge st s =
    (match SL.find_opt (fun p -> p.XAst.body == st) wrapped with
     | Some p -> trace := ocaml_string p.XAst.pname :: !trace
     | None -> ());
    XSem.exec_body (ev ge) (evs ge) (ex ge) (exs ge) ge st s
  and exs ge ss s = XSem.execs_body (ex ge) (exs ge) ss s in
  each_input_line (fun inp ->
    trace := [];
    let outcome =
      match XSem.wf_program prog with
      | Some msg -> XSem.Undef (XSem.Unsupported msg)
      | None ->
        (match XSem.init_globals prog.XAst.globals [] [] [] with
         | Datatypes.Coq_inl u -> XSem.Undef u
         | Datatypes.Coq_inr ((vals, vars), arrs) ->
           (match XSem.find_proc (coq_string "main") prog.XAst.procs with
            | None -> XSem.Undef (XSem.Unsupported (coq_string "no procedure main"))
            | Some m ->
              if m.XAst.is_func || m.XAst.formals <> [] then XSem.Undef (XSem.Unsupported (coq_string "main must be a procedure without formals"))
              else begin
                let ge = { XSem.g_vals = vals; g_procs = prog.XAst.procs; g_maxdepth = depth } in
                let s0 = { XSem.gvars = vars; garrs = arrs; out_rev = []; input = SL.map zi inp; ncons = Datatypes.O; budget = steps;
                           cur = XSem.eff0; stk = [{ XSem.f_vars = []; f_vals = []; f_depth = Datatypes.O }] } in
                match XSem.invoke (ex ge) ge false (coq_string "main") [] s0 with
                | XSem.Ret (_, s) -> XSem.finish s (zi 0)
                | XSem.Halt (c, s) -> XSem.finish s c
                | XSem.Fail u -> XSem.Undef u
              end)) in
    P.printf "calls %s | " (SS.concat "," (SL.rev !trace));
    match outcome with
    | XSem.Behaviour b ->
        P.printf "behaviour exit=%d consumed=%d out=%s\n" (u32 (iz b.XSem.exit_value)) (int_of_nat b.XSem.consumed)
          (out_str (SL.map (fun (st, by) -> (iz st, iz by)) b.XSem.outputs))
    | XSem.Undef u -> P.printf "undef %s\n" (undef_str u))
