(* RTL engines: the extracted [Vexp.eval] applied to the designs generated from /repo's Verilog (coq/gen/Rtl*.v).
   rtlproc <sv|v|vsynth> : processor top.  stdin "plant byte rst pc areg breg oreg ddata xv" per line
                           (plant=0: continue from the design's own previous next state; xv: value of every X k)
                           stdout "R <outputs sorted by name> | <next state sorted by name>" -- same format as
                           harness/rtl_proc.cpp, so the two can be diffed textually. *)
open Hvutil
module SL = Stdlib.List
module P = Stdlib.Printf

let zi = z_of_int and iz = int_of_z

let design_of (name : string) : Vexp.design =
  match name with
  | "sv" -> RtlSv.design
  | "v" -> RtlV.design
  | "vsynth" -> RtlVSynth.design
  | "hex" -> RtlHex.design
  | _ -> failwith ("unknown design " ^ name)

let show (e : Vexp.env) (l : (String.string * Vexp.vexp) list) : string =
  Stdlib.String.concat " " (SL.map (fun (n, x) -> P.sprintf "%s=%d" (ostring_of_coq n) (iz (Vexp.eval e x))) l)

let proc_main () =
  let d = design_of Sys.argv.(2) in
  let st = Hashtbl.create 8 in
  SL.iter (fun r -> Hashtbl.replace st r 0) ["pc_q"; "areg_q"; "breg_q"; "oreg_q"];
  (try
    while true do
      let line = input_line stdin in
      match SL.map int_of_string (tokens line) with
      | plant :: byte :: rst :: pc :: a :: b :: o :: dd :: rest ->
        let xv = match rest with x :: _ -> x | [] -> 0 in
        if plant <> 0 then begin
          Hashtbl.replace st "pc_q" pc; Hashtbl.replace st "areg_q" a;
          Hashtbl.replace st "breg_q" b; Hashtbl.replace st "oreg_q" o end;
        let var0 rstv (n : String.string) : BinNums.coq_Z =
          let s = ostring_of_coq n in
          match s with
          | "i_f_data" -> zi byte | "i_d_data" -> zi dd | "i_rst" -> zi rstv | "i_clk" -> zi 1
          | _ -> (match Hashtbl.find_opt st s with Some v -> zi v | None -> failwith ("rtlproc: design reads unknown signal " ^ s)) in
        let env rstv = { Vexp.var = var0 rstv; Vexp.xs = (fun _ -> zi xv); Vexp.arr = (fun _ _ -> zi 0) } in
        (* outputs are sampled before the edge with reset low (what the Verilated harness can observe) *)
        let outs = show (env 0) d.Vexp.outputs in
        let e1 = env rst in
        let nxt = SL.map (fun (n, x) -> (ostring_of_coq n, iz (Vexp.eval e1 x))) d.Vexp.next in
        P.printf "R %s | %s\n" outs (Stdlib.String.concat " " (SL.map (fun (n, v) -> P.sprintf "%s=%d" n v) nxt));
        SL.iter (fun (n, v) -> Hashtbl.replace st n v) nxt
      | _ -> ()
    done
  with End_of_file -> ())
