(* RTL engines: the extracted [Vexp.eval] applied to the designs generated from /repo's Verilog (coq/gen/Rtl*.v).
   rtlproc <sv|v|vsynth> : processor top.  stdin "plant byte rst pc areg breg oreg ddata xv" per line
                           (plant=0: continue from the design's own previous next state; xv: value of every X k)
                           stdout "R <outputs sorted by name> | <next state sorted by name>" -- same format as
                           harness/rtl_proc.cpp, so the two can be diffed textually. *)
open Hvutil
module SL = Stdlib.List
module P = Stdlib.Printf

let zi = z_of_int and iz = int_of_z

let design_of (name : string) : Vexp.design =
  match name with
  | "sv" -> RtlSv.design
  | "v" -> RtlV.design
  | "vsynth" -> RtlVSynth.design
  | "hex" -> RtlHex.design
  | _ -> failwith ("unknown design " ^ name)

let show (e : Vexp.env) (l : (String.string * Vexp.vexp) list) : string =
  Stdlib.String.concat " " (SL.map (fun (n, x) -> P.sprintf "%s=%d" (ostring_of_coq n) (iz (Vexp.eval e x))) l)

let proc_main () =
  let d = design_of Sys.argv.(2) in
  let st = Hashtbl.create 8 in
  SL.iter (fun r -> Hashtbl.replace st r 0) ["pc_q"; "areg_q"; "breg_q"; "oreg_q"];
  (try
    while true do
      let line = input_line stdin in
      match SL.map int_of_string (tokens line) with
      | plant :: byte :: rst :: pc :: a :: b :: o :: dd :: rest ->
        let xv = match rest with x :: _ -> x | [] -> 0 in
        if plant <> 0 then begin
          Hashtbl.replace st "pc_q" pc; Hashtbl.replace st "areg_q" a;
          Hashtbl.replace st "breg_q" b; Hashtbl.replace st "oreg_q" o end;
        let var0 rstv (n : String.string) : BinNums.coq_Z =
          let s = ostring_of_coq n in
          match s with
          | "i_f_data" -> zi byte | "i_d_data" -> zi dd | "i_rst" -> zi rstv | "i_clk" -> zi 1
          | _ -> (match Hashtbl.find_opt st s with Some v -> zi v | None -> failwith ("rtlproc: design reads unknown signal " ^ s)) in
        let env rstv = { Vexp.var = var0 rstv; Vexp.xs = (fun _ -> zi xv); Vexp.arr = (fun _ _ -> zi 0) } in
        (* outputs are sampled before the edge with reset low (what the Verilated harness can observe) *)
        let outs = show (env 0) d.Vexp.outputs in
        (* rst = 2: no clock edge, a reset pulse with the clock low: a register changes iff `posedge i_rst` is in the
           sensitivity list of its block (d.clocking); then its block runs with i_rst = 1 *)
        let e1 = env (if rst = 2 then 1 else rst) in
        let sensitive (n : String.string) : bool =
          rst <> 2 ||
          (match SL.find_opt (fun (m, _) -> ostring_of_coq m = ostring_of_coq n) d.Vexp.clocking with
           | Some (_, es) -> SL.exists (fun e -> ostring_of_coq e = "posedge i_rst") es
           | None -> false) in
        let nxt = SL.map (fun (n, x) -> (ostring_of_coq n, if sensitive n then iz (Vexp.eval e1 x) else Hashtbl.find st (ostring_of_coq n))) d.Vexp.next in
        P.printf "R %s | %s\n" outs (Stdlib.String.concat " " (SL.map (fun (n, v) -> P.sprintf "%s=%d" n v) nxt));
        SL.iter (fun (n, v) -> Hashtbl.replace st n v) nxt
      | _ -> ()
    done
  with End_of_file -> ())

(* ---------------------------------------------------------------------------------------------------------------
   hex top (processor + memory).  Planted-state case line: "pc areg breg oreg ncells (addr val)*"
   rtlhex  : extracted RtlSem.cycle / outs / wire on the generated design RtlHex.design
             -> "R pc a b o | W addr val | sv sc | f"       (same format as harness/rtl_hex.cpp step)
   c03step : extracted Isa.step (the spec) on the same state, console and files empty
             -> "I ok pc a b o | W addr val | evclass | inv=<0/1> rng=<0/1> byte=<k>"   or   "I undef <class> | inv=.. byte=.."
             (for a READ event the memory write is the testbench's, so W is "-")
   c03run <bin> <maxsteps> <from> <to> : extracted Isa.step iterated from Isa.boot, console input = stdin
             -> "D <step> <hash>" every 4096 steps, "T ..." for steps in [from,to), "END ..." (format of rtl_hex run) *)
type hcase = { hregs : int * int * int * int; hcells : (int * int) list }

let parse_hcase (line : string) : hcase option =
  match SL.map int_of_string (tokens line) with
  | pc :: a :: b :: o :: nc :: rest ->
      let rec cells n l = if n = 0 then [] else match l with ad :: v :: r -> (ad, v) :: cells (n - 1) r | _ -> failwith "short case" in
      Some { hregs = (pc, a, b, o); hcells = cells nc rest }
  | [] -> None
  | _ -> failwith "bad case"

let hmem (c : hcase) : WMap.t = SL.fold_left (fun m (ad, v) -> WMap.wr m (zi ad) (zi v)) WMap.zero c.hcells

let wdiff (m0 : WMap.t) (m1 : WMap.t) : (int * int) list =
  let els = FMapPositive.PositiveMap.elements m1.WMap.cells in
  SL.sort compare (SL.filter_map (fun (k, v) ->
    let ad = int_of_pos k - 1 in
    if iz (WMap.rd m0 (zi ad)) <> iz v then Some (ad, iz v) else None) els)

(* a write of the value already there is invisible to a diff; the RTL harness reports the write port, so detect it
   through the cell set as well: a cell present in m1 but not in m0 *)
let wport (m0 : WMap.t) (m1 : WMap.t) : (int * int) list =
  let k0 = SL.map fst (FMapPositive.PositiveMap.elements m0.WMap.cells) in
  let els = FMapPositive.PositiveMap.elements m1.WMap.cells in
  SL.sort compare (SL.filter_map (fun (k, v) ->
    let ad = int_of_pos k - 1 in
    if not (SL.mem k k0) || iz (WMap.rd m0 (zi ad)) <> iz v then Some (ad, iz v) else None) els)

let wstr (l : (int * int) list) : string =
  match l with [] -> "-" | _ -> Stdlib.String.concat " " (SL.map (fun (ad, v) -> P.sprintf "W %d %d" ad v) l)

let cs (s : string) : String.string = coq_of_ostring s

let hex_main () =
  let d = RtlHex.design in
  (try while true do
    match parse_hcase (input_line stdin) with
    | None -> ()
    | Some c ->
      let (pc, a, b, o) = c.hregs in
      let m0 = hmem c in
      let s = { RtlSem.r_pc = zi pc; r_areg = zi a; r_breg = zi b; r_oreg = zi o; r_mem = m0 } in
      let s' = RtlSem.cycle d s in
      let outs = RtlSem.outs d s in
      let get n = iz (RtlSem.getv (cs n) outs (zi (-1))) in
      let f = iz (RtlSem.wire d s (cs "hex.res_f_data")) in
      (* the write port: evaluate the design's write list through the state's memory -- a rewrite of the present value
         does not show in a diff, so planted memories always hold a value different from areg at the written address
         unless the generator says otherwise; report through the cell set *)
      P.printf "R %d %d %d %d | %s | %d %d | %d\n" (iz s'.RtlSem.r_pc) (iz s'.RtlSem.r_areg) (iz s'.RtlSem.r_breg) (iz s'.RtlSem.r_oreg)
        (wstr (wport m0 s'.RtlSem.r_mem)) (get "o_syscall_valid") (get "o_syscall") f
  done with End_of_file -> ())

let evclass (e : Isa.event) : string =
  match e with Isa.Tau -> "tau" | Isa.Exit _ -> "exit" | Isa.Write (_, _) -> "write" | Isa.Read (_, _) -> "read"

let fetch_byte (pc : int) (m : WMap.t) : int = (iz (WMap.rd m (zi (pc / 4))) lsr (8 * (pc land 3))) land 255

let c03step_main () =
  let no_inp = { Isa.console = []; Isa.files = (fun _ -> []) } in
  (try while true do
    match parse_hcase (input_line stdin) with
    | None -> ()
    | Some c ->
      let (pc, a, b, o) = c.hregs in
      let m0 = hmem c in
      let k = fetch_byte pc m0 in
      let inv = if o land 15 = 0 then 1 else 0 in
      let st = { Isa.pc = zi pc; Isa.areg = zi a; Isa.breg = zi b; Isa.oreg = zi o; Isa.mem = m0 } in
      (match Isa.step st no_inp with
       | Isa.Ok ((s', _), ev) ->
           let pc' = iz s'.Isa.pc and a' = iz s'.Isa.areg in
           let rng = if pc' < 800000 && (k lsr 4 <> 5 || a' < 800000) then 1 else 0 in
           let w = match ev with Isa.Read (_, _) -> "-" | _ -> wstr (wport m0 s'.Isa.mem) in
           P.printf "I ok %d %d %d %d | %s | %s | inv=%d rng=%d byte=%d\n" pc' a' (iz s'.Isa.breg) (iz s'.Isa.oreg) w (evclass ev) inv rng k
       | Isa.Undefined u ->
           let cl = match u with Isa.BadOpcode _ -> "opcode" | Isa.BadOpr _ -> "opr" | Isa.BadSvc _ -> "svc" | Isa.BadAddress _ -> "address" in
           P.printf "I undef %s | inv=%d byte=%d\n" cl inv k)
  done with End_of_file -> ())

let hm = 2147483647
let hmix (h : int) (x : int) : int = (h * 1000003 + (x land 0xffffffff)) mod hm

let c03run_main () =
  let bin = Sys.argv.(2) in
  let max_steps = int_of_string Sys.argv.(3) in
  let from = int_of_string Sys.argv.(4) and upto = int_of_string Sys.argv.(5) in
  (* optional 6th argument "judge-all": do not stop at a READ that overwrites its own SVC (used for the known-finding shapes) *)
  let judge_all = Array.length Sys.argv > 6 && Sys.argv.(6) = "judge-all" in
  let file = C02drv.read_file bin in
  let len = Stdlib.String.length file in
  let bytes = SL.init (max 0 (len - 4)) (fun i -> zi (Char.code (Stdlib.String.get file (i + 4)))) in
  let words = Isa.words_of_bytes bytes in
  let cons = let b = Buffer.create 64 in (try while true do Buffer.add_channel b stdin 1 done with End_of_file -> ()); Buffer.contents b in
  let inp = ref { Isa.console = SL.init (Stdlib.String.length cons) (fun i -> zi (Char.code (Stdlib.String.get cons i))); Isa.files = (fun _ -> []) } in
  let st = ref (Isa.boot words) in
  let h = ref 7 and steps = ref 0 and fin = ref "" and rc = ref (-1) in
  let out = Buffer.create 256 in
  let left_range = ref "" in
  while !fin = "" do
    if !steps >= max_steps then fin := "cut" else begin
      let s = !st in
      let pc = iz s.Isa.pc in
      let k = fetch_byte pc s.Isa.mem in
      match Isa.step s !inp with
      | Isa.Undefined u ->
          fin := (match u with Isa.BadOpcode _ -> "undef-opcode" | Isa.BadOpr _ -> "undef-opr" | Isa.BadSvc _ -> "undef-svc" | Isa.BadAddress _ -> "undef-address")
      | Isa.Ok ((s', inp'), ev) ->
          let pc' = iz s'.Isa.pc and a' = iz s'.Isa.areg in
          let in_range = pc' < 800000 && (k lsr 4 <> 5 || a' < 800000) in
          let read_safe = (match ev with Isa.Read (_, _) -> fetch_byte pc s'.Isa.mem = k | _ -> true) in
          if not in_range then fin := "left-range"
          else if not read_safe && not judge_all then fin := "read-overwrites-its-svc"
          else begin
            (* the written word: Isa.step returns the very same memory value when it does not write; when it does, the
               address is the instruction's effective address (checked by reading the new memory there; the final
               memory hash covers every other cell) *)
            let wl = (match ev with
              | Isa.Read (_, _) -> []
              | _ -> if s'.Isa.mem == s.Isa.mem then [] else
                  (let o = (iz s.Isa.oreg) lor (k land 15) in
                   let ad = if k lsr 4 = 2 then o else ((iz s.Isa.breg) + o) land 0xffffffff in
                   [(ad, iz (WMap.rd s'.Isa.mem (zi ad)))])) in
            let (wa, wv, wp) = (match wl with (ad, v) :: _ -> (ad, v, true) | [] -> (0xffffffff, 0, false)) in
            let (evc, e1, e2) = (match ev with
              | Isa.Tau -> (0, 0, 0) | Isa.Exit c -> (1, iz c, 0)
              | Isa.Write (b, stt) -> Buffer.add_char out (Char.chr (iz b land 255)); (2, iz b, iz stt)
              | Isa.Read (stt, g) -> (3, iz stt, iz g)) in
            st := s'; inp := inp'; incr steps;
            h := hmix !h pc'; h := hmix !h a'; h := hmix !h (iz s'.Isa.breg); h := hmix !h (iz s'.Isa.oreg);
            h := hmix !h wa; h := hmix !h wv; h := hmix !h evc; h := hmix !h e1; h := hmix !h e2; h := hmix !h k;
            if !steps >= from + 1 && !steps < upto + 1 then
              P.printf "T %d f=%d pc=%d a=%d b=%d o=%d w=%s%d:%d ev=%d,%d,%d\n" !steps k pc' a' (iz s'.Isa.breg) (iz s'.Isa.oreg)
                (if wp then "" else "-") (if wp then wa else 0) wv evc e1 e2;
            if !steps land 4095 = 0 then P.printf "D %d %d\n" !steps !h;
            (match ev with Isa.Exit c -> fin := "exit"; rc := iz c | _ -> ())
          end
    end
  done;
  ignore left_range;
  let s = !st in
  let mh = ref 11 in
  for i = 0 to 199999 do mh := hmix !mh (iz (WMap.rd s.Isa.mem (zi i))) done;
  P.printf "END %s clocks=%d hash=%d rc=%d pc=%d a=%d b=%d o=%d memhash=%d out=" !fin !steps !h !rc
    (iz s.Isa.pc) (iz s.Isa.areg) (iz s.Isa.breg) (iz s.Isa.oreg) !mh;
  Stdlib.String.iter (fun ch -> P.printf "%02x" (Char.code ch)) (Buffer.contents out);
  P.printf "\n"
