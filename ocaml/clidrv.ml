(* clidrv: the extracted CliModel on argv shapes.  Input lines (TAB separated):
     tool <TAB> accepted(0/1) <TAB> exitvalue <TAB> inputfile-exists(0/1) <TAB> argv0 <TAB> argv1 ...
   The tools' work is supplied as: accepted -> Some [marker], rejected -> None; simulate -> Some (exitvalue, []).
   Output: status diag(0/1) changed=<comma separated names of files created/changed among the candidates> *)
open Hvutil
module SL = Stdlib.List
module SS = Stdlib.String
module P = Stdlib.Printf
let zi = z_of_int and iz = int_of_z

let main () =
  try while true do
    let line = input_line stdin in
    match SS.split_on_char '\t' line with
    | tool :: acc :: ev :: ex :: argv ->
        let accepted = acc = "1" and exists = ex = "1" in
        let marker = [zi 42] in
        let work (_ : BinNums.coq_Z list) = if accepted then Some marker else None in
        let simulate _ _ = Some (zi (int_of_string ev), []) in
        let fs0 (n : String.string) : BinNums.coq_Z list option =
          let s = ostring_of_coq n in
          if exists && (s = "in.src" || s = "in.bin") then Some [zi 1] else None in
        let cargv = SL.map coq_of_ostring argv in
        (* the case directory has a sub-directory "adir" and no directory "nodir" *)
        let writable (n : String.string) : bool =
          let s = ostring_of_coq n in
          not (s = "" || s = "adir" || s = "." || (SS.length s >= 6 && SS.sub s 0 6 = "nodir/")) in
        let r = match tool with
          | "hexasm" -> CliModel.hexasm_main writable work cargv fs0
          | "xcmp" -> CliModel.xcmp_main writable work cargv fs0
          | "hexsim" -> CliModel.hexsim_main simulate cargv [] fs0
          | "xrun" -> CliModel.xrun_main writable work simulate cargv [] fs0
          | _ -> failwith "tool" in
        let cands = SL.sort_uniq compare (SL.filter (fun a -> a <> "adir" && a <> ".") argv @ ["a.out"; "a.bin"; "out.bin"; "o2.bin"]) in
        let changed = SL.filter (fun n -> n <> "" && r.CliModel.files (coq_of_ostring n) <> fs0 (coq_of_ostring n)) cands in
        P.printf "%d %d changed=%s\n" (iz r.CliModel.status) (if r.CliModel.diagnostic then 1 else 0) (SS.concat "," changed)
    | _ -> ()
  done with End_of_file -> ()
