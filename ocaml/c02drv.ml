(* C02: evaluate Isa.step (spec) and SimModel.step (model of hexsim) on planted states.
   input  line: pc a b o ncells (addr val)* ncons byte* nfiles (idx len byte* )*
   output lines: "I <canon>" (spec) and "M <canon>" (model) per case.
   canon: ok pc a b o | W addr val ... | ev | cons=<remaining> | f<idx>=<remaining> ...
          illegal | badaddr | ub *)
open Hvutil
module SL = Stdlib.List
module P = Stdlib.Printf

let zi = z_of_int and iz = int_of_z

type case = { regs : int * int * int * int; cells : (int * int) list; cons : int list; files : (int * int list) list }

let case_steps (line : string) : int * string =
  if Stdlib.String.length line > 0 && Stdlib.String.get line 0 = 'k' then
    (match tokens line with
     | k :: rest -> (int_of_string (Stdlib.String.sub k 1 (Stdlib.String.length k - 1)), Stdlib.String.concat " " rest)
     | [] -> (1, line))
  else (1, line)

let parse_case (line : string) : case =
  let toks = ref (SL.map int_of_string (tokens line)) in
  let next () = match !toks with x :: r -> toks := r; x | [] -> failwith "short case" in
  let pc = next () in let a = next () in let b = next () in let o = next () in
  let nc = next () in
  let cells = SL.init nc (fun _ -> let ad = next () in let v = next () in (ad, v)) in
  let ncons = next () in
  let cons = SL.init ncons (fun _ -> next ()) in
  let nf = next () in
  let files = SL.init nf (fun _ -> let idx = next () in let len = next () in (idx, SL.init len (fun _ -> next ()))) in
  { regs = (pc, a, b, o); cells; cons; files }

let mem_of (c : case) : WMap.t =
  SL.fold_left (fun m (ad, v) -> WMap.wr m (zi ad) (zi v)) WMap.zero c.cells
let inputs_of (c : case) : Isa.inputs =
  { Isa.console = SL.map zi c.cons;
    Isa.files = (fun g -> let i = iz g in match SL.assoc_opt i c.files with Some l -> SL.map zi l | None -> []) }

(* words whose value differs between m0 and m1, among the cells of m1 (writes only add cells) *)
let diff (m0 : WMap.t) (m1 : WMap.t) : (int * int) list =
  let els = FMapPositive.PositiveMap.elements m1.WMap.cells in
  let l = SL.filter_map (fun (k, v) ->
    let ad = int_of_pos k - 1 in
    if iz (WMap.rd m0 (zi ad)) <> iz v then Some (ad, iz v) else None) els in
  SL.sort compare l

let ev_str (e : Isa.event) : string =
  match e with
  | Isa.Tau -> "tau"
  | Isa.Exit c -> P.sprintf "exit %d" (iz c)
  | Isa.Write (b, st) ->
      if Isa.is_console st then P.sprintf "write %d console" (iz b)
      else P.sprintf "write %d file%d" (iz b) (iz (Isa.file_index st))
  | Isa.Read (st, g) ->
      if Isa.is_console st then P.sprintf "read %d console" (iz g)
      else P.sprintf "read %d file%d" (iz g) (iz (Isa.file_index st))

let canon (pc, a, b, o) (m0 : WMap.t) (m1 : WMap.t) (ev : Isa.event) (inp : Isa.inputs) (c : case) : string =
  let w = SL.map (fun (ad, v) -> P.sprintf " %d %d" ad v) (diff m0 m1) in
  let fs = SL.map (fun (idx, _) -> P.sprintf " f%d=%d" idx (SL.length (inp.Isa.files (zi idx)))) c.files in
  P.sprintf "ok %d %d %d %d | W%s | %s | cons=%d |%s" pc a b o (Stdlib.String.concat "" w) (ev_str ev)
    (SL.length inp.Isa.console) (Stdlib.String.concat "" fs)

(* k > 1: a short run of k instructions from the planted state (self-modifying sequences); judged only when all k
   ISA steps are defined and none exits; the event column is always tau *)
let run_multi (k : int) (line : string) : unit =
  let c = parse_case line in
  let (pc, a, b, o) = c.regs in
  let m0 = mem_of c in
  let st = ref { Isa.pc = zi pc; Isa.areg = zi a; Isa.breg = zi b; Isa.oreg = zi o; Isa.mem = m0 } in
  let inp = ref (inputs_of c) in
  let sm = ref { SimModel.s_pc = zi pc; s_areg = zi a; s_breg = zi b; s_oreg = zi o; s_mem = m0;
                 s_running = true; s_exit = zi 0; s_cycles = zi 0 } in
  let bad = ref "" and mbad = ref "" in
  for _ = 1 to k do
    if !bad = "" then
      (match Isa.step !st !inp with
       | Isa.Ok ((s', inp'), ev) ->
           (match ev with Isa.Exit _ -> bad := "skip" | _ -> ());
           (match SimModel.step !sm !inp with
            | SimModel.SOk ((m', _), _) -> sm := m'
            | _ -> mbad := "modelstuck");
           st := s'; inp := inp'
       | Isa.Undefined (Isa.BadAddress _) -> bad := "badaddr"
       | Isa.Undefined _ -> bad := "skip")
  done;
  if !bad = "badaddr" then (P.printf "I badaddr\nM badaddr\n")
  else if !bad <> "" then (P.printf "I badaddr\nM badaddr\n")     (* not judged: treated like out-of-quantifier *)
  else begin
    let s' = !st in
    P.printf "I %s\n" (canon (iz s'.Isa.pc, iz s'.Isa.areg, iz s'.Isa.breg, iz s'.Isa.oreg) m0 s'.Isa.mem Isa.Tau !inp c);
    let m' = !sm in
    if !mbad <> "" then P.printf "M illegal\n" else
    P.printf "M %s\n" (canon (iz m'.SimModel.s_pc, iz m'.SimModel.s_areg, iz m'.SimModel.s_breg, iz m'.SimModel.s_oreg) m0 m'.SimModel.s_mem Isa.Tau !inp c)
  end

let run_case (line0 : string) : unit =
  let (k, line) = case_steps line0 in
  if k > 1 then run_multi k line else
  let c = parse_case line in
  let (pc, a, b, o) = c.regs in
  let m0 = mem_of c in
  let inp = inputs_of c in
  let st = { Isa.pc = zi pc; Isa.areg = zi a; Isa.breg = zi b; Isa.oreg = zi o; Isa.mem = m0 } in
  (match Isa.step st inp with
   | Isa.Ok ((s', inp'), ev) ->
       P.printf "I %s\n" (canon (iz s'.Isa.pc, iz s'.Isa.areg, iz s'.Isa.breg, iz s'.Isa.oreg) m0 s'.Isa.mem ev inp' c)
   | Isa.Undefined (Isa.BadAddress _) -> P.printf "I badaddr\n"
   | Isa.Undefined _ -> P.printf "I illegal\n");
  let sm = { SimModel.s_pc = zi pc; s_areg = zi a; s_breg = zi b; s_oreg = zi o; s_mem = m0;
             s_running = true; s_exit = zi 0; s_cycles = zi 0 } in
  (match SimModel.step sm inp with
   | SimModel.SOk ((s', inp'), ev) ->
       P.printf "M %s\n" (canon (iz s'.SimModel.s_pc, iz s'.SimModel.s_areg, iz s'.SimModel.s_breg, iz s'.SimModel.s_oreg)
                            m0 s'.SimModel.s_mem ev inp' c)
   | SimModel.SThrow _ -> P.printf "M illegal\n"
   | SimModel.SUB _ -> P.printf "M badaddr\n")

let main () =
  try while true do
    let line = input_line stdin in
    if Stdlib.String.trim line <> "" then run_case line
  done with End_of_file -> ()

(* ---- whole runs: c02run <bin> <maxsteps>  (stdin = console input) ---- *)
let read_file (name : string) : string =
  let ic = open_in_bin name in
  let n = in_channel_length ic in
  let s = really_input_string ic n in
  close_in ic; s

let mix (h : int) (x : int) : int = (h * 31 + x) land 0x3FFFFFFFFFFFFFFF

(* image words of a hex binary: 4-byte LE word count, then that many words *)
let image_words (file : string) : int list =
  let len = Stdlib.String.length file in
  let byte i = if i < len then Char.code (Stdlib.String.get file i) else 0 in
  let nwords = byte 0 lor (byte 1 lsl 8) lor (byte 2 lsl 16) lor (byte 3 lsl 24) in
  SL.init nwords (fun w -> let p = 4 + 4 * w in byte p lor (byte (p+1) lsl 8) lor (byte (p+2) lsl 16) lor (byte (p+3) lsl 24))

let run_main () =
  let bin = Sys.argv.(2) in
  let max_steps = int_of_string Sys.argv.(3) in
  let max_cycles = if Array.length Sys.argv > 4 then int_of_string Sys.argv.(4) else 0 in
  (* the image as the MODEL of Processor::load() reads it (Loader.load_file, extracted); no second parser *)
  let file = read_file bin in
  let fbytes = SL.init (Stdlib.String.length file) (fun i -> zi (Char.code (Stdlib.String.get file i))) in
  let words = match Loader.load_file fbytes with
    | Some (ws, _) -> SL.map iz ws
    | None -> P.printf "END loadreject rc=1 steps=0 h=0 pc=0 a=0 b=0 o=0\nMARKS\nOUT 0\nCONSUMED 0\n"; exit 0 in
  let cons = let b = Buffer.create 64 in (try while true do Buffer.add_channel b stdin 1 done with End_of_file -> ()); Buffer.contents b in
  let ncons = Stdlib.String.length cons in
  (* stream files simin<k> of the working directory, as HexSimIO opens them *)
  let file_bytes (k : int) : BinNums.coq_Z list =
    let name = P.sprintf "simin%d" k in
    if Sys.file_exists name then (let f = read_file name in SL.init (Stdlib.String.length f) (fun i -> zi (Char.code (Stdlib.String.get f i)))) else [] in
  let ftab = Array.init 8 file_bytes in
  let inp0 = { Isa.console = SL.init ncons (fun i -> zi (Char.code (Stdlib.String.get cons i)));
               Isa.files = (fun g -> let i = iz g in if i >= 0 && i < 8 then ftab.(i) else []) } in
  let st = ref (Isa.boot (SL.map zi words)) in
  let sm = ref (SimModel.init (fun _ -> zi 0) (zi 0) (SL.map zi words)) in
  let inp = ref inp0 in
  let h = ref 0 and steps = ref 0 in
  let marks = Buffer.create 256 and out = Buffer.create 256 in
  let nout = ref 0 in
  let fin = ref "" and rc = ref 0 in
  let fouts = Array.init 8 (fun _ -> Buffer.create 16) in
  let modeldiff = ref (-1) in
  while !fin = "" do
    if max_cycles > 0 && not (SimModel.guard (zi max_cycles) !sm) then (fin := "limit"; rc := iz (!sm).SimModel.s_exit) else
    if !steps >= max_steps then fin := "cut" else
    match Isa.step !st !inp with
    | Isa.Undefined (Isa.BadAddress _) -> fin := "badaddr"
    | Isa.Undefined _ -> fin := "throw"
    | Isa.Ok ((s', inp'), ev) ->
        (match SimModel.step !sm !inp with
         | SimModel.SOk ((m', _), _) ->
             sm := m';
             let a = SimModel.arch_of m' in
             if !modeldiff < 0 && (iz a.Isa.pc <> iz s'.Isa.pc || iz a.Isa.areg <> iz s'.Isa.areg || iz a.Isa.breg <> iz s'.Isa.breg || iz a.Isa.oreg <> iz s'.Isa.oreg)
             then modeldiff := !steps
         | _ -> if !modeldiff < 0 then modeldiff := !steps);
        st := s'; inp := inp'; incr steps;
        h := mix (mix (mix (mix !h (iz s'.Isa.pc)) (iz s'.Isa.areg)) (iz s'.Isa.breg)) (iz s'.Isa.oreg);
        if !steps mod 1000 = 0 then Buffer.add_string marks (P.sprintf " %d:%d" !steps !h);
        (match ev with
         | Isa.Exit c -> fin := "exit"; rc := iz (Isa.signed c)
         | Isa.Write (b, stt) -> if Isa.is_console stt then (incr nout; Buffer.add_string out (P.sprintf " %d" (iz b)))
                                 else (let k = iz (Isa.file_index stt) in if k >= 0 && k < 8 then Buffer.add_char fouts.(k) (Char.chr (iz b land 255)))
         | _ -> ())
  done;
  P.printf "END %s rc=%d steps=%d h=%d pc=%d a=%d b=%d o=%d\n" !fin !rc !steps !h
    (iz !st.Isa.pc) (iz !st.Isa.areg) (iz !st.Isa.breg) (iz !st.Isa.oreg);
  P.printf "MARKS%s\n" (Buffer.contents marks);
  P.printf "OUT %d%s\n" !nout (Buffer.contents out);
  P.printf "CONSUMED %d\n" (ncons - SL.length !inp.Isa.console);
  Array.iteri (fun k b -> if Buffer.length b > 0 then (P.printf "FILE %d" k; Stdlib.String.iter (fun c -> P.printf " %d" (Char.code c)) (Buffer.contents b); P.printf "\n")) fouts;
  if !modeldiff >= 0 then P.printf "MODELDIFF %d\n" !modeldiff


(* ---- c02iorun <bin> <maxsteps>: the run of the simulator MODEL against the device model of hexsimio.hpp (SimIO.v:
   one stream per file index, bound at first use to the direction of that use).  Prints what the real hexsim leaves
   behind: END <how> rc=<status>, OUT <console bytes>, FILE <k> <bytes of simout<k>> ---- *)
let iorun_main () =
  let bin = Sys.argv.(2) in
  let max_steps = int_of_string Sys.argv.(3) in
  let file = read_file bin in
  let fbytes = SL.init (Stdlib.String.length file) (fun i -> zi (Char.code (Stdlib.String.get file i))) in
  let words = match Loader.load_file fbytes with
    | Some (ws, _) -> ws
    | None -> P.printf "END loadreject rc=1\nOUT 0\n"; exit 0 in
  let cons = let b = Buffer.create 64 in (try while true do Buffer.add_channel b stdin 1 done with End_of_file -> ()); Buffer.contents b in
  let file_bytes (k : int) : BinNums.coq_Z list =
    let name = P.sprintf "simin%d" k in
    if Sys.file_exists name then (let f = read_file name in SL.init (Stdlib.String.length f) (fun i -> zi (Char.code (Stdlib.String.get f i)))) else [] in
  let ftab = Array.init 8 file_bytes in
  let inp0 = { Isa.console = SL.init (Stdlib.String.length cons) (fun i -> zi (Char.code (Stdlib.String.get cons i)));
               Isa.files = (fun g -> let i = iz g in if i >= 0 && i < 8 then ftab.(i) else []) } in
  let sm = ref (SimModel.init (fun _ -> zi 0) (zi 0) words) in
  let dv = ref (SimIO.dev0 inp0) in
  let steps = ref 0 and fin = ref "" and rc = ref 0 in
  while !fin = "" do
    if not (!sm).SimModel.s_running then (fin := "exit"; rc := iz (!sm).SimModel.s_exit) else
    if !steps >= max_steps then fin := "cut" else
    match SimIO.step_dev !sm !dv with
    | SimModel.SOk ((m', d'), _) -> sm := m'; dv := d'; incr steps
    | SimModel.SThrow _ -> fin := "throw"; rc := 1
    | SimModel.SUB _ -> fin := "ub"
  done;
  P.printf "END %s rc=%d steps=%d\n" !fin !rc !steps;
  let co = SL.rev (!dv).SimIO.d_cout in
  P.printf "OUT %d%s\n" (SL.length co) (Stdlib.String.concat "" (SL.map (fun b -> P.sprintf " %d" (iz b)) co));
  for k = 0 to 7 do
    let fo = SL.rev ((!dv).SimIO.d_fout (zi k)) in
    if fo <> [] then P.printf "FILE %d%s\n" k (Stdlib.String.concat "" (SL.map (fun b -> P.sprintf " %d" (iz b)) fo))
  done;
  (* files that were opened for output exist even when nothing could be written to them *)
  for k = 0 to 7 do
    match (!dv).SimIO.d_bind (zi k) with
    | SimIO.BOut -> P.printf "OPENED %d\n" k
    | _ -> ()
  done

(* ---- c15trace <bin> <maxsteps>: the leading columns of every trace line according to the ISA run and the
   symbol table found in the binary (SimModel.trace_symbol): "n pc sym+off|- OPC nib" ---- *)
let parse_symtab (file : string) : (string * int) list =
  let len = Stdlib.String.length file in
  let byte i = if i < len then Char.code (Stdlib.String.get file i) else 0 in
  let w p = byte p lor (byte (p+1) lsl 8) lor (byte (p+2) lsl 16) lor (byte (p+3) lsl 24) in
  let nwords = w 0 in
  let p = ref (4 + 4 * nwords) in
  if !p + 4 > len then [] else begin
    let n = w !p in p := !p + 4;
    let names = Array.make n "" in
    for i = 0 to n - 1 do
      let b = Buffer.create 8 in
      while !p < len && byte !p <> 0 do Buffer.add_char b (Char.chr (byte !p)); incr p done;
      incr p; names.(i) <- Buffer.contents b
    done;
    let m = w !p in p := !p + 4;
    let l = ref [] in
    for _ = 0 to m - 1 do
      let idx = w !p and off = w (!p + 4) in p := !p + 8;
      l := (names.(idx), off) :: !l
    done;
    SL.rev !l
  end

let trace_main () =
  let bin = Sys.argv.(2) in
  let max_steps = int_of_string Sys.argv.(3) in
  let file = read_file bin in
  (* image words and symbol table as the MODEL of Processor::load() reads them (Loader.load_file, extracted) *)
  let fbytes = SL.init (Stdlib.String.length file) (fun i -> zi (Char.code (Stdlib.String.get file i))) in
  let (words_z, tab) = match Loader.load_file fbytes with
    | Some (ws, t) -> (ws, SL.map (fun (nm, o) -> (coq_of_ostring (Stdlib.String.concat "" (SL.map (fun b -> Stdlib.String.make 1 (Char.chr (iz b))) nm)), o)) t)
    | None -> P.printf "LOADREJECT\n"; exit 0 in
  let words = SL.map iz words_z in
  let cons = let b = Buffer.create 64 in (try while true do Buffer.add_channel b stdin 1 done with End_of_file -> ()); Buffer.contents b in
  let inp = ref { Isa.console = SL.init (Stdlib.String.length cons) (fun i -> zi (Char.code (Stdlib.String.get cons i))); Isa.files = (fun _ -> []) } in
  let st = ref (Isa.boot (SL.map zi words)) in
  let n = ref 0 and fin = ref false in
  while not !fin && !n < max_steps do
    let pcv = iz !st.Isa.pc in
    let b = iz (Isa.fetch !st) in
    let sym = match SimModel.trace_symbol tab (zi pcv) with
      | Some (nm, off) -> P.sprintf "%s+%d" (ostring_of_coq nm) (iz off) | None -> "-" in
    P.printf "%d %d %s %d %d\n" !n pcv sym (b / 16) (b land 15);
    (match Isa.step !st !inp with
     | Isa.Ok ((s', inp'), ev) -> st := s'; inp := inp'; incr n; (match ev with Isa.Exit _ -> fin := true | _ -> ())
     | Isa.Undefined _ -> fin := true)
  done
