(* tbrun <bin> <current|previous|legacy> <fuel> <maxcycles> [pc=N areg=N breg=N oreg=N fill=BYTE mem:W=V h=0..15]   (stdin = console input)
   The extracted TbModel.run (model of hextb.cpp's load()/run()/handleSyscall() over the generated RTL) from a planted
   power-on state; h gives the four hidden trigger bits (bit0 processor prev-clk, bit1 processor prev-rst, bit2 memory
   prev-clk, bit3 memory prev-rst).  Output mirrors harness/tb_harness.cpp:
     END returned|threw|ub|nofuel / RC <exit code> / CONSUMED <n> / OUT <n> <bytes to the console> /
     STATE pc= areg= breg= oreg= image_intact= rest_zero= time= cycles=   (final testbench state) *)
open Hvutil
module SL = Stdlib.List
module SS = Stdlib.String
module P = Stdlib.Printf

let zi = z_of_int and iz = int_of_z

let starts_with (s : string) (p : string) : bool =
  SS.length s >= SS.length p && SS.sub s 0 (SS.length p) = p
let after (s : string) (p : string) : string = SS.sub s (SS.length p) (SS.length s - SS.length p)

let main () =
  let bin = Sys.argv.(2) in
  let params = (match Sys.argv.(3) with "legacy" -> TbModel.coq_Legacy | "previous" -> TbModel.coq_Previous | _ -> TbModel.coq_Current) in
  let fuel = int_of_string Sys.argv.(4) in
  let maxc = int_of_string Sys.argv.(5) in
  let pc = ref 0 and a = ref 0 and b = ref 0 and o = ref 0 and fill = ref 0 and h = ref 0 in
  let mems = ref [] in
  for i = 6 to Array.length Sys.argv - 1 do
    let arg = Sys.argv.(i) in
    if starts_with arg "pc=" then pc := int_of_string (after arg "pc=")
    else if starts_with arg "areg=" then a := int_of_string (after arg "areg=")
    else if starts_with arg "breg=" then b := int_of_string (after arg "breg=")
    else if starts_with arg "oreg=" then o := int_of_string (after arg "oreg=")
    else if starts_with arg "fill=" then fill := int_of_string (after arg "fill=") land 255
    else if starts_with arg "h=" then h := int_of_string (after arg "h=")
    else if starts_with arg "mem:" then
      (match SS.split_on_char '=' (after arg "mem:") with
       | [w; v] -> mems := (int_of_string w, int_of_string v) :: !mems
       | _ -> ())
  done;
  let file = C02drv.read_file bin in
  let bytes = SL.init (SS.length file) (fun i -> zi (Char.code (SS.get file i))) in
  let fillw = !fill * 0x01010101 in
  let bg (x : BinNums.coq_Z) : BinNums.coq_Z = zi fillw in
  let hid = { TbModel.hp_clk = (!h land 1 <> 0); hp_rst = (!h land 2 <> 0); hm_clk = (!h land 4 <> 0); hm_rst = (!h land 8 <> 0) } in
  let ini = { TbModel.i_pc = zi !pc; i_areg = zi !a; i_breg = zi !b; i_oreg = zi !o; i_bg = bg; i_hidden = hid } in
  if not (TbModel.file_loads bytes) then begin
    (* load() throws: main prints the error and returns 1 without running *)
    P.printf "END loaderror\nRC 1\nCONSUMED 0\nOUT 0\nSTATE pc=0 areg=0 breg=0 oreg=0 image_intact=0 rest_zero=0 time=0 cycles=0\n"; exit 0 end;
  (* power-on state + load(): with the current constants load() clears the memory, so fill= has no effect any more;
     with previous/legacy the words outside the image keep the fill *)
  let st0 = TbModel.power_on params ini bytes in
  (* planted memory words (after load, as the harness does) *)
  let st0 = SL.fold_left (fun st (w, v) -> TbModel.set_tmem st (WMap.wr st.TbModel.t_s.RtlSem.r_mem (zi w) (zi v))) st0 (SL.rev !mems) in
  let cons = let bf = Buffer.create 64 in (try while true do Buffer.add_channel bf stdin 1 done with End_of_file -> ()); Buffer.contents bf in
  let ncons = SS.length cons in
  let inp0 = { Isa.console = SL.init ncons (fun i -> zi (Char.code (SS.get cons i))); Isa.files = (fun _ -> []) } in
  let (((evs, inp'), st), fin) = TbModel.run params RtlHex.design (nat_of_int fuel) (zi maxc) st0 inp0 [] in
  let out = Buffer.create 64 in
  SL.iter (fun e -> match e with
    | Isa.Write (bt, stt) -> if SimModel.io_is_console stt then Buffer.add_char out (Char.chr (iz bt land 255))
    | _ -> ()) evs;
  let (ends, rc) = (match fin with
    | TbModel.TReturned c -> ("returned", iz c) | TbModel.TThrew -> ("threw", 1) | TbModel.TUb -> ("ub", -1) | TbModel.TNoFuel -> ("nofuel", -1)) in
  let words = TbModel.loaded_words bytes in
  let m = st.TbModel.t_s.RtlSem.r_mem in
  let intact = ref true in
  SL.iteri (fun i w -> if iz (WMap.rd m (zi i)) <> iz w then intact := false) words;
  P.printf "END %s\nRC %d\nCONSUMED %d\nOUT %d" ends rc (ncons - SL.length inp'.Isa.console) (Buffer.length out);
  SS.iter (fun c -> P.printf " %d" (Char.code c)) (Buffer.contents out);
  let s = st.TbModel.t_s in
  let rest_zero = ref true in
  for w = SL.length words to 524287 do if iz (WMap.rd m (zi w)) <> 0 then rest_zero := false done;
  P.printf "\nSTATE pc=%d areg=%d breg=%d oreg=%d image_intact=%d rest_zero=%d time=%d cycles=%d\n" (iz s.RtlSem.r_pc) (iz s.RtlSem.r_areg) (iz s.RtlSem.r_breg)
    (iz s.RtlSem.r_oreg) (if !intact then 1 else 0) (if !rest_zero then 1 else 0) (iz st.TbModel.t_time) (iz st.TbModel.t_cycles)

(* c06mon <bin> <maxsteps>   (stdin = console input)
   The ISA run of the image (extracted Isa.step from Isa.boot of the words the header announces, everything else zero --
   which is also what hextb's memory holds since load() clears it) with the well-behavedness monitor of C06/C13
   (TbModel.safe_mon): every instruction defined and step_safe (byte addresses < 800000, a READ does not overwrite its
   own SVC, store addresses non-negative).  Which words the program reads plays no role any more.
   Output: END exit|cut|undef / RC <exit word as int> / CONSUMED n / OUT n bytes / STEPS n / WB 1|0 <reason> *)
let mon_main () =
  let bin = Sys.argv.(2) in
  let maxsteps = int_of_string Sys.argv.(3) in
  let file = C02drv.read_file bin in
  let len = SS.length file in
  let bytes = SL.init len (fun i -> zi (Char.code (SS.get file i))) in
  if not (TbModel.file_loads bytes) then begin
    P.printf "END rejected-by-the-loader\nRC 1\nCONSUMED 0\nOUT 0\nSTEPS 0\nWB 1\n"; exit 0 end;
  let ws = TbModel.loaded_words bytes in
  let cons = let bf = Buffer.create 64 in (try while true do Buffer.add_channel bf stdin 1 done with End_of_file -> ()); Buffer.contents bf in
  let ncons = SS.length cons in
  let inp = ref { Isa.console = SL.init ncons (fun i -> zi (Char.code (SS.get cons i))); Isa.files = (fun _ -> []) } in
  let st = ref (Isa.boot ws) in
  let wb = ref "" in
  let flag r = if !wb = "" then wb := r in
  let out = Buffer.create 64 in
  let steps = ref 0 and fin = ref "" and rc = ref 0 in
  while !fin = "" do
    if !steps >= maxsteps then fin := "cut" else begin
      let s = !st in
      match Isa.step s !inp with
      | Isa.Undefined _ -> fin := "undef"; flag (P.sprintf "step-%d-undefined" !steps)
      | Isa.Ok ((s', inp'), ev) ->
          if not (TbModel.step_safe s s' ev) then flag (P.sprintf "step-%d-not-safe(range/read-overwrites-svc)" !steps);
          st := s'; inp := inp'; incr steps;
          (match ev with
           | Isa.Exit c -> fin := "exit"; rc := iz (SimModel.to_int c)
           | Isa.Write (bt, stt) -> if SimModel.io_is_console stt then Buffer.add_char out (Char.chr (iz bt land 255))
           | _ -> ())
    end
  done;
  P.printf "END %s\nRC %d\nCONSUMED %d\nOUT %d" !fin !rc (ncons - SL.length (!inp).Isa.console) (Buffer.length out);
  SS.iter (fun c -> P.printf " %d" (Char.code c)) (Buffer.contents out);
  P.printf "\nSTEPS %d\nWB %s\n" !steps (if !wb = "" then "1" else "0 " ^ !wb)
