(* conversions between OCaml ints/strings and the extracted Coq datatypes *)
module SL = Stdlib.List
module SS = Stdlib.String
open BinNums

let rec pos_of_int (n : int) : positive =
  if n = 1 then Coq_xH
  else if n land 1 = 0 then Coq_xO (pos_of_int (n lsr 1))
  else Coq_xI (pos_of_int (n lsr 1))
let z_of_int (n : int) : coq_Z =
  if n = 0 then Z0 else if n > 0 then Zpos (pos_of_int n) else Zneg (pos_of_int (- n))
let rec int_of_pos (p : positive) : int =
  match p with Coq_xH -> 1 | Coq_xO q -> 2 * int_of_pos q | Coq_xI q -> 2 * int_of_pos q + 1
let int_of_z (z : coq_Z) : int =
  match z with Z0 -> 0 | Zpos p -> int_of_pos p | Zneg p -> - (int_of_pos p)

let rec nat_of_int (n : int) : Datatypes.nat = if n <= 0 then Datatypes.O else Datatypes.S (nat_of_int (n - 1))
let rec int_of_nat (n : Datatypes.nat) : int = match n with Datatypes.O -> 0 | Datatypes.S k -> 1 + int_of_nat k

let tokens (line : string) : string list =
  SL.filter (fun s -> s <> "") (SS.split_on_char ' ' (SS.trim line))

(* extracted Coq strings (String.string over Ascii.ascii) <-> OCaml strings *)
let char_of_ascii (a : Ascii.ascii) : char =
  match a with Ascii.Ascii (b0, b1, b2, b3, b4, b5, b6, b7) ->
    let v b k = if b then 1 lsl k else 0 in
    Char.chr (v b0 0 lor v b1 1 lor v b2 2 lor v b3 3 lor v b4 4 lor v b5 5 lor v b6 6 lor v b7 7)
let ascii_of_char (c : char) : Ascii.ascii =
  let n = Char.code c in let b k = (n lsr k) land 1 = 1 in
  Ascii.Ascii (b 0, b 1, b 2, b 3, b 4, b 5, b 6, b 7)
let ostring_of_coq (s : String.string) : string =
  let b = Buffer.create 16 in
  let rec go s = match s with String.EmptyString -> () | String.String (a, r) -> Buffer.add_char b (char_of_ascii a); go r in
  go s; Buffer.contents b
let coq_of_ostring (s : string) : String.string =
  let r = ref String.EmptyString in
  for i = Stdlib.String.length s - 1 downto 0 do r := String.String (ascii_of_char (Stdlib.String.get s i), !r) done; !r
