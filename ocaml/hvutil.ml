(* conversions between OCaml ints/strings and the extracted Coq datatypes *)
module SL = Stdlib.List
module SS = Stdlib.String
open BinNums

let rec pos_of_int (n : int) : positive =
  if n = 1 then Coq_xH
  else if n land 1 = 0 then Coq_xO (pos_of_int (n lsr 1))
  else Coq_xI (pos_of_int (n lsr 1))
let z_of_int (n : int) : coq_Z =
  if n = 0 then Z0 else if n > 0 then Zpos (pos_of_int n) else Zneg (pos_of_int (- n))
let rec int_of_pos (p : positive) : int =
  match p with Coq_xH -> 1 | Coq_xO q -> 2 * int_of_pos q | Coq_xI q -> 2 * int_of_pos q + 1
let int_of_z (z : coq_Z) : int =
  match z with Z0 -> 0 | Zpos p -> int_of_pos p | Zneg p -> - (int_of_pos p)

let rec nat_of_int (n : int) : Datatypes.nat = if n <= 0 then Datatypes.O else Datatypes.S (nat_of_int (n - 1))
let rec int_of_nat (n : Datatypes.nat) : int = match n with Datatypes.O -> 0 | Datatypes.S k -> 1 + int_of_nat k

let tokens (line : string) : string list =
  SL.filter (fun s -> s <> "") (SS.split_on_char ' ' (SS.trim line))
