let () =
  if Array.length Sys.argv < 2 then (prerr_endline "usage: hvmain <cmd>"; exit 2);
  match Sys.argv.(1) with
  | "c02step" -> C02drv.main ()
  | "c02run" -> C02drv.run_main ()
  | "c15trace" -> C02drv.trace_main ()
  | "asmbatch" -> Asmdrv.main ()
  | "asmoracle" -> Asmoracle.main ()
  | "climodel" -> Clidrv.main ()
  | "asmselftest" -> Asmdrv.selftest ()
  | "tbrun" -> Tbdrv.main ()
  | "c06mon" -> Tbdrv.mon_main ()
  | "rtlproc" -> Rtldrv.proc_main ()
  | "rtlhex" -> Rtldrv.hex_main ()
  | "c03step" -> Rtldrv.c03step_main ()
  | "c03run" -> Rtldrv.c03run_main ()
  | "xsem" -> Xdrv.xsem_main ()
  | "xisa" -> Xdrv.xisa_main ()
  | "xcg" -> Xdrv.xcg_main ()
  | "xsemtrace" -> Xdrv.xsemtrace_main ()
  | "c07mode" -> C07drv.mode_main () | "c07tree" -> C07drv.tree_main () | "c07front" -> C07drv.front_main () | "c07xsem" -> C07drv.xsem_main () | "c07run" -> C07drv.run_main () | "c07gc" -> C07drv.gc_main ()
  | "xfront" -> Xfrontdrv.main ()
  | "xfront2sx" -> Xfrontdrv.sx_main ()
  | c -> prerr_endline ("unknown command " ^ c); exit 2
