(* asmlistdrv: the listing TEXT of the real tools read by the extracted Coq reader (AsmListingRead.read_listing_line,
   proved to invert the model's printer: C17_text_listing_reads_back), then judged by the extracted spec validator
   AsmSpec.check_listing against the real binary's image.
     hvmain asmlistcheck <file>     input, repeated per case:
          CASE <k>                 number of listing lines that follow the image line
          <image bytes in hex, or - for an empty image>
          <k lines, each the bytes of one listing line in hex (no line end)>
        output per case:  RESULT <i> read=<ok|reject:<index of the first refused line>> listing=<ok|FAIL|skip> | <items>
          items = what the reader saw, ';'-separated:  I off opc operand size | O off k size | D off v size | B off size | P size
          (a final "<n> bytes" line is recognised by AsmListingRead.is_total_line and carries no item)
     hvmain asmlisttext <casefile>  casefile as for asmbatch ("<len>\n<len bytes>" per source): the model's listing printed by
          the Coq printer AsmListingRead.listing_lines:  CASE i / L <line> ... | REJECT / END i *)
open Hvutil
module SL = Stdlib.List
module SS = Stdlib.String
module P = Stdlib.Printf
let zi = z_of_int and iz = int_of_z

let bytes_of_hex (h : string) : BinNums.coq_Z list =
  let h = SS.trim h in
  if h = "-" || h = "" then [] else
  SL.init (SS.length h / 2) (fun i -> zi (int_of_string ("0x" ^ SS.sub h (2 * i) 2)))

let item_str (l : AsmSpec.lline) : string =
  match l with
  | AsmSpec.LInstr (off, opc, v, sz) -> P.sprintf "I %d %d %d %d" (iz off) (iz opc) (iz v) (iz sz)
  | AsmSpec.LOpr (off, k, sz) -> P.sprintf "O %d %d %d" (iz off) (iz k) (iz sz)
  | AsmSpec.LData (off, v, sz) -> P.sprintf "D %d %d %d" (iz off) (iz v) (iz sz)
  | AsmSpec.LLabel (off, sz) -> P.sprintf "B %d %d" (iz off) (iz sz)
  | AsmSpec.LPadding sz -> P.sprintf "P %d" (iz sz)

let check_main () =
  let ic = open_in_bin Sys.argv.(2) in
  let case = ref 0 in
  (try while true do
    let hd = tokens (input_line ic) in
    (match hd with
     | ["CASE"; k] ->
         let k = int_of_string k in
         let image = bytes_of_hex (input_line ic) in
         let lines = SL.init k (fun _ -> bytes_of_hex (input_line ic)) in
         (* the reader, line by line; the last line may be the total line *)
         let n = SL.length lines in
         let items = ref [] and bad = ref (-1) in
         SL.iteri (fun i l ->
           if !bad < 0 then
             if i = n - 1 && AsmListingRead.is_total_line l then ()
             else match AsmListingRead.read_listing_line l with
                  | Some x -> items := x :: !items
                  | None -> bad := i) lines;
         let items = SL.rev !items in
         (* the same through the whole-listing reader of the theorem: must agree with the line-by-line loop *)
         let whole = AsmListingRead.read_listing lines in
         let consistent = (match whole with Some l -> !bad < 0 && l = items | None -> !bad >= 0) in
         let verdict =
           if !bad >= 0 then "skip" else if AsmSpec.check_listing items image then "ok" else "FAIL" in
         P.printf "RESULT %d read=%s listing=%s%s | %s\n" !case
           (if !bad < 0 then "ok" else P.sprintf "reject:%d" !bad) verdict (if consistent then "" else " INCONSISTENT")
           (SS.concat ";" (SL.map item_str items));
         incr case
     | [] -> ()
     | _ -> failwith "CASE expected")
  done with End_of_file -> ());
  close_in ic

let text_main () =
  let ic = open_in_bin Sys.argv.(2) in
  let i = ref 0 in
  (try while true do
    let len = int_of_string (SS.trim (input_line ic)) in
    let src = really_input_string ic len in
    let bytes = SL.init (SS.length src) (fun k -> zi (Char.code (SS.get src k))) in
    P.printf "CASE %d\n" !i;
    (match AsmLayout.assemble bytes with
     | AsmModel.Ok o ->
         SL.iter (fun l ->
           let b = Buffer.create 64 in
           SL.iter (fun z -> Buffer.add_char b (Char.chr ((iz z) land 255))) l;
           P.printf "L %s\n" (Buffer.contents b))
           (AsmListingRead.listing_lines o.AsmLayout.ao_listing o.AsmLayout.ao_total)
     | _ -> P.printf "REJECT\n");
    P.printf "END %d\n" !i;
    incr i
  done with End_of_file -> ());
  close_in ic
