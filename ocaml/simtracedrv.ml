(* simtracedrv: hvmain c15text <binary> <max steps>     stdin: console input
   The ISA run of the binary (extracted Isa.step from Isa.boot, image and symbol table as the model of Processor::load
   reads them), and for every step about to execute one line
       <n> <pc> <symbol+offset|-> <opcode> <nibble> <TAB> <hex of the bytes hexsim -t prints at the start of that line>
   the text being SimTraceText.prefix_text (extracted) of the structured prefix -- the right-hand side of
   C15_trace_line_text.  The structured columns are the same as `hvmain c15trace` prints. *)
open Hvutil
module SL = Stdlib.List
module SS = Stdlib.String
module P = Stdlib.Printf
let zi = z_of_int and iz = int_of_z

let read_file (name : string) : string =
  let ic = open_in_bin name in
  let n = in_channel_length ic in
  let s = really_input_string ic n in
  close_in ic; s

let main () =
  let bin = Sys.argv.(2) in
  let max_steps = int_of_string Sys.argv.(3) in
  let file = read_file bin in
  let fbytes = SL.init (SS.length file) (fun i -> zi (Char.code (SS.get file i))) in
  let (words_z, tab) = match Loader.load_file fbytes with
    | Some (ws, t) -> (ws, SL.map (fun (nm, o) -> (coq_of_ostring (SS.concat "" (SL.map (fun b -> SS.make 1 (Char.chr (iz b))) nm)), o)) t)
    | None -> P.printf "LOADREJECT\n"; exit 0 in
  let debug = SimTraceText.has_debug tab in
  let cons = let b = Buffer.create 64 in (try while true do Buffer.add_channel b stdin 1 done with End_of_file -> ()); Buffer.contents b in
  let inp = ref { Isa.console = SL.init (SS.length cons) (fun i -> zi (Char.code (SS.get cons i))); Isa.files = (fun _ -> []) } in
  let st = ref (Isa.boot words_z) in
  let n = ref 0 and fin = ref false in
  let hex = Buffer.create 128 in
  while not !fin && !n < max_steps do
    let pcv = !st.Isa.pc in
    let b = iz (Isa.fetch !st) in
    let symz = SimModel.trace_symbol tab pcv in
    let sym = match symz with Some (nm, off) -> P.sprintf "%s+%d" (ostring_of_coq nm) (iz off) | None -> "-" in
    let text = SimTraceText.prefix_text debug ((((zi !n, pcv), symz), zi (b / 16)), zi (b land 15)) in
    Buffer.clear hex;
    SL.iter (fun z -> Buffer.add_string hex (P.sprintf "%02x" ((iz z) land 255))) text;
    P.printf "%d %d %s %d %d\t%s\n" !n (iz pcv) sym (b / 16) (b land 15) (Buffer.contents hex);
    (match Isa.step !st !inp with
     | Isa.Ok ((s', inp'), ev) -> st := s'; inp := inp'; incr n; (match ev with Isa.Exit _ -> fin := true | _ -> ())
     | Isa.Undefined _ -> fin := true)
  done
