(* xfrontdrv: the extracted model of xcmp's Lexer+Parser (XFront.v) on a batch of source texts; prints the tree in
   the format of xcmp.hpp's AstPrinter (with locations) or the diagnostic in the format of harness/xcmp_harness.cpp:
     CASE i / TREE-OK + "T " lines | TREE-REJECT line l:c: message | UB what | OUTOFFUEL / END i *)
open Hvutil
module SL = Stdlib.List
module SS = Stdlib.String
module P = Stdlib.Printf
let zi = z_of_int and iz = int_of_z
let os = ostring_of_coq

let buf = Buffer.create 65536
let line ind s = for _ = 1 to ind do Buffer.add_string buf "  " done; Buffer.add_string buf s; Buffer.add_char buf '\n'
let loc (l, c) = P.sprintf " [loc=line %d:%d]" (iz l) (iz c)
let bytes_str (l : BinNums.coq_Z list) = let b = Buffer.create 16 in SL.iter (fun z -> Buffer.add_char b (Char.chr ((iz z) land 255))) l; Buffer.contents b

let binop_str (o : XAst.binop) = match o with
  | XAst.Plus -> "+" | XAst.Minus -> "-" | XAst.Or -> "or" | XAst.And -> "and" | XAst.Eq -> "=" | XAst.Ne -> "~="
  | XAst.Ls -> "<" | XAst.Le -> "<=" | XAst.Gr -> ">" | XAst.Ge -> ">="

let rec pexpr ind (e : XFront.lexpr) = match e with
  | XFront.LNum (l, n) -> line ind (P.sprintf "number %d%s" (iz n) (loc l))
  | XFront.LBool (l, b) -> line ind (P.sprintf "boolean %d%s" (if b then 1 else 0) (loc l))
  | XFront.LStr (l, s) -> line ind (P.sprintf "string %s%s" (bytes_str s) (loc l))
  | XFront.LVar (l, x) -> line ind (P.sprintf "varref %s%s" (os x) (loc l))
  | XFront.LSub (l, a, i) -> line ind (P.sprintf "arraysubscript %s%s" (os a) (loc l)); pexpr (ind + 1) i
  | XFront.LCall (l, f, args) -> line ind (P.sprintf "call %s%s" (os f) (loc l)); SL.iter (pexpr (ind + 1)) args
  | XFront.LSys (l, n, args) -> line ind (P.sprintf "syscall %d%s" (iz n) (loc l)); SL.iter (pexpr (ind + 1)) args
  | XFront.LUn (l, o, e) -> line ind (P.sprintf "unaryop %s%s" (match o with XAst.Neg -> "-" | XAst.Not -> "~") (loc l)); pexpr (ind + 1) e
  | XFront.LBin (l, o, a, b) -> line ind (P.sprintf "binaryop %s%s" (binop_str o) (loc l)); pexpr (ind + 1) a; pexpr (ind + 1) b

let rec pstmt ind (s : XFront.lstmt) = match s with
  | XFront.LSkip l -> line ind ("skipstmt" ^ loc l)
  | XFront.LStop l -> line ind ("stopstmt" ^ loc l)
  | XFront.LReturn (l, e) -> line ind ("returnstmt" ^ loc l); pexpr (ind + 1) e
  | XFront.LIf (l, c, t, e) -> line ind ("ifstmt" ^ loc l); pexpr (ind + 1) c; pstmt (ind + 1) t; pstmt (ind + 1) e
  | XFront.LWhile (l, c, b) -> line ind ("whilestmt" ^ loc l); pexpr (ind + 1) c; pstmt (ind + 1) b
  | XFront.LSeq (l, ss) -> line ind ("seqstmt" ^ loc l); SL.iter (pstmt (ind + 1)) ss
  | XFront.LAssign (l, lhs, e) -> line ind ("assstmt" ^ loc l); pexpr (ind + 1) lhs; pexpr (ind + 1) e
  | XFront.LCallS (l, c) ->
      (match c with
       | XFront.LSys (_, n, _) -> line ind (P.sprintf "syscallstmt %d%s" (iz n) (loc l))
       | _ -> line ind ("callstmt " ^ loc l));
      pexpr (ind + 1) c

let pdecl ind (d : XFront.ldecl) = match d with
  | XFront.LDVal (l, x, e) -> line ind (P.sprintf "valdecl %s%s" (os x) (loc l)); pexpr (ind + 1) e
  | XFront.LDVar (l, x) -> line ind (P.sprintf "vardecl %s%s" (os x) (loc l))
  | XFront.LDArray (l, x, e) -> line ind (P.sprintf "arraydecl %s%s" (os x) (loc l)); pexpr (ind + 1) e

let pformal ind (f : XFront.lformal) =
  let k = match f.XFront.lf_kind with XFront.KVal -> "valformal" | XFront.KArray -> "arrayformal" | XFront.KProc -> "procformal" | XFront.KFunc -> "funcformal" in
  line ind (P.sprintf "%s %s%s" k (os f.XFront.lf_name) (loc f.XFront.lf_loc))

let pprogram (p : XFront.lprogram) =
  line 0 "program";
  SL.iter (pdecl 1) p.XFront.lg_globals;
  SL.iter (fun (q : XFront.lproc) ->
    line 1 (P.sprintf "proc %s%s" (os q.XFront.lp_name) (loc q.XFront.lp_loc));
    SL.iter (pformal 2) q.XFront.lp_formals;
    SL.iter (pdecl 2) q.XFront.lp_locals;
    pstmt 2 q.XFront.lp_body) p.XFront.lg_procs

let run_case (src : string) : unit =
  let bytes = SL.init (SS.length src) (fun i -> zi (Char.code (SS.get src i))) in
  match XFront.front_located bytes with
  | XFront.Reject d ->
      P.printf "TREE-REJECT line %d:%d: %s\n" (iz d.XFront.d_line) (iz d.XFront.d_col) (os (XFront.diag_message d.XFront.d_msg))
  | XFront.UB w -> P.printf "UB %s\n" (os w)
  | XFront.OutOfFuel -> P.printf "OUTOFFUEL\n"
  | XFront.Ok p ->
      Buffer.clear buf;
      pprogram p;
      P.printf "TREE-OK\n";
      let text = Buffer.contents buf in
      (* same line discipline as the harness: every line of the printed tree is prefixed *)
      let n = SS.length text in
      let i = ref 0 in
      while !i < n do
        let j = (try SS.index_from text !i '\n' with Not_found -> n) in
        P.printf "T %s\n" (SS.sub text !i (j - !i));
        i := j + 1
      done

let main () =
  let ic = open_in_bin Sys.argv.(2) in
  let i = ref 0 in
  (try while true do
    let len = int_of_string (SS.trim (input_line ic)) in
    let src = really_input_string ic len in
    P.printf "CASE %d\n" !i;
    run_case src;
    P.printf "END %d\n" !i;
    incr i
  done with End_of_file -> ());
  close_in ic


(* ---------------------------------------------------------------- xfront2sx: XFront.front as the READER of X text
   hvmain xfront2sx <file.x>: the XAst.program the model of the real lexer+parser builds from the file's bytes, printed in
   the machine format ocaml/xdrv.ml reads (= tools/xcommon.py to_sx), or one line "reject line l:c: message". *)
let opname (o : XAst.binop) = match o with
  | XAst.Plus -> "plus" | XAst.Minus -> "minus" | XAst.Or -> "or" | XAst.And -> "and" | XAst.Eq -> "eq" | XAst.Ne -> "ne"
  | XAst.Ls -> "ls" | XAst.Le -> "le" | XAst.Gr -> "gr" | XAst.Ge -> "ge"

let rec sx_expr b (e : XAst.expr) =
  let add = Buffer.add_string b in
  match e with
  | XAst.ENum n -> add (P.sprintf "(num %d)" (iz n))
  | XAst.EBool true -> add "(true)"
  | XAst.EBool false -> add "(false)"
  | XAst.EStr l -> add "(str"; SL.iter (fun z -> add (P.sprintf " %d" (iz z))) l; add ")"
  | XAst.EVar x -> add (P.sprintf "(var %s)" (os x))
  | XAst.ESub (a, i) -> add (P.sprintf "(sub %s " (os a)); sx_expr b i; add ")"
  | XAst.ECall (f, args) -> add (P.sprintf "(call %s" (os f)); SL.iter (fun a -> add " "; sx_expr b a) args; add ")"
  | XAst.ESys (n, args) -> add (P.sprintf "(sys %d" (iz n)); SL.iter (fun a -> add " "; sx_expr b a) args; add ")"
  | XAst.EUn (XAst.Neg, e) -> add "(neg "; sx_expr b e; add ")"
  | XAst.EUn (XAst.Not, e) -> add "(not "; sx_expr b e; add ")"
  | XAst.EBin (o, l, r) -> add (P.sprintf "(bin %s " (opname o)); sx_expr b l; add " "; sx_expr b r; add ")"

let rec sx_stmt b (s : XAst.stmt) =
  let add = Buffer.add_string b in
  match s with
  | XAst.SSkip -> add "(skip)"
  | XAst.SStop -> add "(stop)"
  | XAst.SReturn e -> add "(return "; sx_expr b e; add ")"
  | XAst.SIf (c, t, e) -> add "(if "; sx_expr b c; add " "; sx_stmt b t; add " "; sx_stmt b e; add ")"
  | XAst.SWhile (c, s) -> add "(while "; sx_expr b c; add " "; sx_stmt b s; add ")"
  | XAst.SSeq ss -> add "(seq"; SL.iter (fun s -> add " "; sx_stmt b s) ss; add ")"
  | XAst.SAssign (x, e) -> add (P.sprintf "(assign %s " (os x)); sx_expr b e; add ")"
  | XAst.SAssignSub (a, i, e) -> add (P.sprintf "(assignsub %s " (os a)); sx_expr b i; add " "; sx_expr b e; add ")"
  | XAst.SCall (f, args) -> add (P.sprintf "(call %s" (os f)); SL.iter (fun a -> add " "; sx_expr b a) args; add ")"
  | XAst.SSys (n, args) -> add (P.sprintf "(sys %d" (iz n)); SL.iter (fun a -> add " "; sx_expr b a) args; add ")"

let sx_decl b (d : XAst.decl) =
  let add = Buffer.add_string b in
  match d with
  | XAst.DVal (x, e) -> add (P.sprintf "(val %s " (os x)); sx_expr b e; add ")"
  | XAst.DVar x -> add (P.sprintf "(var %s)" (os x))
  | XAst.DArray (x, e) -> add (P.sprintf "(array %s " (os x)); sx_expr b e; add ")"

let sx_formal b (f : XAst.formal) =
  Buffer.add_string b (match f with
    | XAst.FVal x -> P.sprintf "(val %s)" (os x) | XAst.FArray x -> P.sprintf "(array %s)" (os x)
    | XAst.FProc x -> P.sprintf "(proc %s)" (os x) | XAst.FFunc x -> P.sprintf "(func %s)" (os x))

let sx_program (p : XAst.program) : string =
  let b = Buffer.create 65536 in
  let add = Buffer.add_string b in
  add "(program (globals";
  SL.iter (fun d -> add " "; sx_decl b d) p.XAst.globals;
  add ") (procs";
  SL.iter (fun (q : XAst.proc) ->
    add (P.sprintf "\n (%s %s (formals" (if q.XAst.is_func then "func" else "proc") (os q.XAst.pname));
    SL.iter (fun f -> add " "; sx_formal b f) q.XAst.formals;
    add ") (locals";
    SL.iter (fun d -> add " "; sx_decl b d) q.XAst.locals;
    add ") "; sx_stmt b q.XAst.body; add ")") p.XAst.procs;
  add "))\n";
  Buffer.contents b

let sx_main () =
  let ic = open_in_bin Sys.argv.(2) in
  let n = in_channel_length ic in
  let src = really_input_string ic n in
  close_in ic;
  let bytes = SL.init (SS.length src) (fun i -> zi (Char.code (SS.get src i))) in
  match XFront.front bytes with
  | XFront.Ok p -> print_string (sx_program p)
  | XFront.Reject d -> P.printf "reject line %d:%d: %s\n" (iz d.XFront.d_line) (iz d.XFront.d_col) (os (XFront.diag_message d.XFront.d_msg))
  | XFront.UB w -> P.printf "ub %s\n" (os w)
  | XFront.OutOfFuel -> P.printf "outoffuel\n"
