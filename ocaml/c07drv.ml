(* c07drv.ml -- drivers of the C07 check (compile-time evaluation agrees with run-time evaluation).

   hvmain c07mode
       prints   arith=<int|wrap> nonconstval=<accept|reject>      (XConstProp.repo_arith, repo_rejects_nonconst_val)
   hvmain c07tree          stdin: one path of a program in machine format (tools/xcommon.py to_sx) per line
       for each program:   BEGIN <path>
                           TREE <ok|ub <what>|err <what>>      followed by the lines of XConstProp.tree (xcmp --tree)
                           OPT <ok|ub ..|err ..>               followed by the lines of XConstProp.tree_opt
                           END
       lines are printed in AstPrinter's shape without the [loc=..] field
   hvmain c07front         stdin: paths as above; writes <path>.front = machine format of XConstProp.front p
       (the program the code generator works from), prints   HYP <path> names_ok=<0|1> swap_safe=<0|1>
       (the two decidable hypotheses of C07_front_preserves_partial, extracted XFrontPreserve.names_ok and
       front_swap_safe, on the source program) and then      FRONT <path> <ok|ub ..|err ..>
   hvmain c07gc            stdin: one int value per line
       one line per value:     A <imm|pool> <v> B <imm|pool> <v>       (XConstProp.gen_const for areg and breg)
   hvmain c07xsem <steps> <depth>     stdin: lines  <path> <hex input|->
       one line per program:   behaviour exit=.. consumed=.. out=..   |   undef <Reason>      (extracted XSem.run_fuel)
   hvmain c07run <maxsteps>          stdin: lines  <a.out path> <hex input|->
       one line per binary:    END <exit|cut|stuck:..> code=<u32> steps=<n> out=<stream>:<byte>,...   (extracted Isa.step) *)
open Hvutil
module SL = Stdlib.List
module SS = Stdlib.String
module P = Stdlib.Printf

let zi = z_of_int and iz = int_of_z
let ostr = Xdrv.ocaml_string

let ub_str = function
  | XConstProp.SignedOverflow -> "SignedOverflow"
  | XConstProp.UninitValRead x -> "UninitValRead " ^ ostr x
let err_str = function
  | XConstProp.UnknownSymbol x -> "UnknownSymbol " ^ ostr x
  | XConstProp.InvalidSyscall n -> P.sprintf "InvalidSyscall %d" (iz n)
  | XConstProp.NonConstVal x -> "NonConstVal " ^ ostr x
  | XConstProp.RedefinedProc x -> "RedefinedProc " ^ ostr x

let status = function
  | XConstProp.COk _ -> "ok"
  | XConstProp.CUB u -> "ub " ^ ub_str u
  | XConstProp.CErr e -> "err " ^ err_str e

let print_lines (ls : XConstProp.pline list) =
  SL.iter (fun (l : XConstProp.pline) ->
    let b = Buffer.create 64 in
    for _ = 1 to int_of_nat l.XConstProp.p_indent do Buffer.add_string b "  " done;
    Buffer.add_string b (ostr l.XConstProp.p_head);
    (match l.XConstProp.p_arg with
     | XConstProp.PNone -> ()
     | XConstProp.PName s -> Buffer.add_char b ' '; Buffer.add_string b (ostr s)
     | XConstProp.PNum z -> Buffer.add_string b (P.sprintf " %d" (iz z)));
    (match l.XConstProp.p_const with
     | Some z -> Buffer.add_string b (P.sprintf " [const=%d]" (iz z))
     | None -> ());
    print_string (Buffer.contents b); print_char '\n') ls

let each_line (f : string -> unit) : unit =
  try while true do
    let line = SS.trim (input_line stdin) in
    if line <> "" then (f line; flush stdout)
  done with End_of_file -> ()

let mode_main () =
  P.printf "arith=%s nonconstval=%s\n"
    (match XConstProp.repo_arith with XConstProp.ArithInt -> "int" | XConstProp.ArithWrap -> "wrap")
    (if XConstProp.repo_rejects_nonconst_val then "reject" else "accept")

let tree_main () =
  each_line (fun path ->
    let prog = Xdrv.program_of (Xdrv.parse_sx (Xdrv.read_file path)) in
    P.printf "BEGIN %s\n" path;
    let t = XConstProp.tree prog in
    P.printf "TREE %s\n" (status t);
    (match t with XConstProp.COk ls -> print_lines ls | _ -> ());
    let o = XConstProp.tree_opt prog in
    P.printf "OPT %s\n" (status o);
    (match o with XConstProp.COk ls -> print_lines ls | _ -> ());
    print_string "END\n")

(* ---------------------------------------------------------------- machine format printer (XAst -> s-expression) *)
let binop_name = function
  | XAst.Plus -> "plus" | XAst.Minus -> "minus" | XAst.Or -> "or" | XAst.And -> "and" | XAst.Eq -> "eq"
  | XAst.Ne -> "ne" | XAst.Ls -> "ls" | XAst.Le -> "le" | XAst.Gr -> "gr" | XAst.Ge -> "ge"
let rec sx_expr (e : XAst.expr) : string =
  match e with
  | XAst.ENum n -> P.sprintf "(num %d)" (iz n)
  | XAst.EBool true -> "(true)" | XAst.EBool false -> "(false)"
  | XAst.EStr bs -> "(str" ^ SS.concat "" (SL.map (fun b -> P.sprintf " %d" (iz b)) bs) ^ ")"
  | XAst.EVar x -> "(var " ^ ostr x ^ ")"
  | XAst.ESub (a, i) -> "(sub " ^ ostr a ^ " " ^ sx_expr i ^ ")"
  | XAst.ECall (f, args) -> "(call " ^ ostr f ^ sx_args args ^ ")"
  | XAst.ESys (n, args) -> P.sprintf "(sys %d%s)" (iz n) (sx_args args)
  | XAst.EUn (XAst.Neg, a) -> "(neg " ^ sx_expr a ^ ")"
  | XAst.EUn (XAst.Not, a) -> "(not " ^ sx_expr a ^ ")"
  | XAst.EBin (o, l, r) -> "(bin " ^ binop_name o ^ " " ^ sx_expr l ^ " " ^ sx_expr r ^ ")"
and sx_args args = SS.concat "" (SL.map (fun a -> " " ^ sx_expr a) args)
let rec sx_stmt (s : XAst.stmt) : string =
  match s with
  | XAst.SSkip -> "(skip)" | XAst.SStop -> "(stop)"
  | XAst.SReturn e -> "(return " ^ sx_expr e ^ ")"
  | XAst.SIf (c, t, e) -> "(if " ^ sx_expr c ^ " " ^ sx_stmt t ^ " " ^ sx_stmt e ^ ")"
  | XAst.SWhile (c, b) -> "(while " ^ sx_expr c ^ " " ^ sx_stmt b ^ ")"
  | XAst.SSeq ss -> "(seq" ^ SS.concat "" (SL.map (fun x -> " " ^ sx_stmt x) ss) ^ ")"
  | XAst.SAssign (x, e) -> "(assign " ^ ostr x ^ " " ^ sx_expr e ^ ")"
  | XAst.SAssignSub (a, i, e) -> "(assignsub " ^ ostr a ^ " " ^ sx_expr i ^ " " ^ sx_expr e ^ ")"
  | XAst.SCall (f, args) -> "(call " ^ ostr f ^ sx_args args ^ ")"
  | XAst.SSys (n, args) -> P.sprintf "(sys %d%s)" (iz n) (sx_args args)
let sx_decl = function
  | XAst.DVal (x, e) -> "(val " ^ ostr x ^ " " ^ sx_expr e ^ ")"
  | XAst.DVar x -> "(var " ^ ostr x ^ ")"
  | XAst.DArray (x, e) -> "(array " ^ ostr x ^ " " ^ sx_expr e ^ ")"
let sx_formal = function
  | XAst.FVal x -> "(val " ^ ostr x ^ ")" | XAst.FArray x -> "(array " ^ ostr x ^ ")"
  | XAst.FProc x -> "(proc " ^ ostr x ^ ")" | XAst.FFunc x -> "(func " ^ ostr x ^ ")"
let sx_program (p : XAst.program) : string =
  let procs = SL.map (fun (q : XAst.proc) ->
    P.sprintf "\n (%s %s (formals%s) (locals%s) %s)" (if q.XAst.is_func then "func" else "proc") (ostr q.XAst.pname)
      (SS.concat "" (SL.map (fun f -> " " ^ sx_formal f) q.XAst.formals))
      (SS.concat "" (SL.map (fun d -> " " ^ sx_decl d) q.XAst.locals)) (sx_stmt q.XAst.body)) p.XAst.procs in
  P.sprintf "(program (globals%s) (procs%s))\n" (SS.concat "" (SL.map (fun d -> " " ^ sx_decl d) p.XAst.globals))
    (SS.concat "" procs)

let front_main () =
  each_line (fun path ->
    let prog = Xdrv.program_of (Xdrv.parse_sx (Xdrv.read_file path)) in
    let r = XConstProp.front prog in
    (match r with
     | XConstProp.COk q -> let oc = open_out_bin (path ^ ".front") in output_string oc (sx_program q); close_out oc
     | _ -> ());
    P.printf "HYP %s names_ok=%d swap_safe=%d\n" path (if XFrontPreserve.names_ok prog then 1 else 0)
      (if XFrontPreserve.front_swap_safe prog then 1 else 0);
    P.printf "FRONT %s %s\n" path (status r))

(* ---------------------------------------------------------------- batch spec runs *)
let split2 (line : string) : string * string =
  match SS.index_opt line ' ' with
  | Some i -> SS.sub line 0 i, SS.trim (SS.sub line (i + 1) (SS.length line - i - 1))
  | None -> line, "-"

let xsem_main () =
  let steps = zi (int_of_string Sys.argv.(2)) and depth = nat_of_int (int_of_string Sys.argv.(3)) in
  let fuel = XSem.default_fuel in
  each_line (fun line ->
    let path, inp = split2 line in
    let prog = Xdrv.program_of (Xdrv.parse_sx (Xdrv.read_file path)) in
    match XSem.run_fuel fuel steps depth prog (SL.map zi (Xdrv.bytes_of_hex inp)) with
    | XSem.Behaviour b ->
        P.printf "behaviour exit=%d consumed=%d out=%s\n" (Xdrv.u32 (iz b.XSem.exit_value)) (int_of_nat b.XSem.consumed)
          (Xdrv.out_str (SL.map (fun (st, by) -> (iz st, iz by)) b.XSem.outputs))
    | XSem.Undef u -> P.printf "undef %s\n" (Xdrv.undef_str u))

let run_main () =
  let max_steps = int_of_string Sys.argv.(2) in
  each_line (fun line ->
    let path, inp = split2 line in
    let words = Xdrv.image_words (Xdrv.read_file path) in
    let cons = Xdrv.bytes_of_hex inp in
    let inp = ref { Isa.console = SL.map zi cons; Isa.files = (fun _ -> []) } in
    let st = ref (Isa.boot (SL.map zi words)) in
    let steps = ref 0 and fin = ref "" and code = ref 0 and out = ref [] in
    while !fin = "" do
      if !steps >= max_steps then fin := "cut" else
        match Isa.step !st !inp with
        | Isa.Undefined (Isa.BadAddress a) -> fin := P.sprintf "stuck:badaddr:%d" (iz a)
        | Isa.Undefined (Isa.BadOpcode b) -> fin := P.sprintf "stuck:badopcode:%d" (iz b)
        | Isa.Undefined (Isa.BadOpr b) -> fin := P.sprintf "stuck:badopr:%d" (iz b)
        | Isa.Undefined (Isa.BadSvc b) -> fin := P.sprintf "stuck:badsvc:%d" (iz b)
        | Isa.Ok ((s', inp'), ev) ->
            st := s'; inp := inp'; incr steps;
            (match ev with
             | Isa.Exit c -> fin := "exit"; code := iz c
             | Isa.Write (b, stt) -> out := (iz stt, iz b) :: !out
             | _ -> ())
    done;
    P.printf "END %s code=%d steps=%d out=%s\n" !fin (Xdrv.u32 !code) !steps (Xdrv.out_str (SL.rev !out)))

let gc_main () =
  let show = function
    | XConstProp.LoadImm (opc, v) -> P.sprintf "imm %d" (iz v), iz opc
    | XConstProp.LoadPool (opc, v) -> P.sprintf "pool %d" (iz v), iz opc in
  each_line (fun line ->
    let v = zi (int_of_string line) in
    let a, oa = show (XConstProp.gen_const XConstProp.RA v) and b, ob = show (XConstProp.gen_const XConstProp.RB v) in
    (* opcodes: LDAM 0 LDBM 1 LDAC 3 LDBC 4 -- an unexpected opcode shows up in the line and breaks the tie *)
    let okA = (oa = 3 || oa = 0) and okB = (ob = 4 || ob = 1) in
    P.printf "A %s%s B %s%s\n" a (if okA then "" else P.sprintf " opc=%d" oa) b (if okB then "" else P.sprintf " opc=%d" ob))
