(* asmdrv: the extracted model of hexasm on a batch of source texts; output format = harness/asm_harness.cpp *)
open Hvutil
module SL = Stdlib.List
module SS = Stdlib.String
module P = Stdlib.Printf
let zi = z_of_int and iz = int_of_z

let hex_off (n : int) : string =
  if n = 0 then "00000000" else P.sprintf "0x%06x" n

let diag_msg (d : AsmModel.diag) : string =
  match d with
  | AsmModel.EUnexpected (_, _, t) -> "unexpected token " ^ ostring_of_coq (AsmModel.token_str t)
  | AsmModel.EUnrecognised (_, _, t) -> "unrecognised token " ^ ostring_of_coq (AsmModel.token_str t)
  | AsmModel.EInvalidOpr (_, _, t) -> "unexpected operand to OPR " ^ ostring_of_coq (AsmModel.token_str t)
  | AsmModel.EUnknownLabel (_, n) -> "unknown label " ^ ostring_of_coq n
  | AsmModel.EUnaligned _ -> "absolute label value is not word aligned"
  | AsmModel.ENotConverged -> "label resolution did not converge"

let print_reject d locs =
  match AsmLayout.diag_location d locs with
  | Some (l, c) -> P.printf "REJECT line %d:%d: %s\n" (iz l) (iz c) (diag_msg d)
  | None -> P.printf "REJECT noloc: %s\n" (diag_msg d)

let run_case (src : string) : unit =
  let bytes = SL.init (SS.length src) (fun i -> zi (Char.code (SS.get src i))) in
  match AsmModel.parse (AsmModel.lex bytes) with
  | AsmModel.Reject d -> print_reject d []
  | AsmModel.UB w -> P.printf "UB %s\n" (ostring_of_coq w)
  | AsmModel.OutOfFuel -> P.printf "OUTOFFUEL parse\n"
  | AsmModel.Ok ldirs ->
      let locs = SL.map (fun ((l, c), _) -> (l, c)) ldirs in
      let dirs = SL.map (fun (_, d) -> d) ldirs in
      (match AsmLayout.assemble_directives dirs locs with
       | AsmModel.Reject d -> print_reject d locs
       | AsmModel.UB w -> P.printf "UB %s\n" (ostring_of_coq w)
       | AsmModel.OutOfFuel -> P.printf "OUTOFFUEL layout\n"
       | AsmModel.Ok o ->
           P.printf "ACCEPT\n";
           SL.iter (fun ((off, text), size) ->
             P.printf "L %s %-20s (%d bytes)\n" (hex_off (iz off)) (ostring_of_coq text) (iz size)) o.AsmLayout.ao_listing;
           P.printf "L %d bytes\n" (iz o.AsmLayout.ao_total);
           SL.iter (fun (n, off) -> P.printf "SYM %s %d\n" (ostring_of_coq n) (iz off)) o.AsmLayout.ao_syms;
           let b = Buffer.create 1024 in
           SL.iter (fun z -> Buffer.add_string b (P.sprintf " %02x" (iz z))) o.AsmLayout.ao_file;
           P.printf "FILE %d%s\n" (SL.length o.AsmLayout.ao_file) (Buffer.contents b))

let main () =
  let ic = open_in_bin Sys.argv.(2) in
  let i = ref 0 in
  (try while true do
    let len = int_of_string (SS.trim (input_line ic)) in
    let src = really_input_string ic len in
    P.printf "CASE %d\n" !i;
    run_case src;
    P.printf "END %d\n" !i;
    incr i
  done with End_of_file -> ());
  close_in ic


(* asmselftest: evaluate the statements of AsmStatements.v on the model's own output (a test of the statements,
   not a proof): prints one line per accepted case *)
let selftest () =
  let ic = open_in_bin Sys.argv.(2) in
  let i = ref 0 in
  (try while true do
    let len = int_of_string (SS.trim (input_line ic)) in
    let src = really_input_string ic len in
    let bytes = SL.init (SS.length src) (fun k -> zi (Char.code (SS.get src k))) in
    (match AsmModel.parse (AsmModel.lex bytes) with
     | AsmModel.Ok ldirs ->
         let dirs = SL.map (fun (_, d) -> d) ldirs in
         (match AsmLayout.assemble_directives dirs [] with
          | AsmModel.Ok o ->
              let l = o.AsmLayout.ao_layout in
              let hw = zi (iz l.AsmLayout.l_size / 4) in
              P.printf "SELF %d image=%b symtab=%b listing=%b\n" !i
                (AsmSpec.check_image dirs o.AsmLayout.ao_image hw)
                (AsmSpec.check_symtab dirs o.AsmLayout.ao_image o.AsmLayout.ao_syms)
                (AsmSpec.check_listing (AsmStatements.struct_listing l) o.AsmLayout.ao_image)
          | _ -> P.printf "SELF %d rejected\n" !i)
     | _ -> P.printf "SELF %d rejected\n" !i);
    incr i
  done with End_of_file -> ());
  close_in ic
