#!/bin/sh
# Build the framework from files on disk only (offline): Coq development (full .vo build), extraction, OCaml engines.
set -e
cd "$(dirname "$0")"
mkdir -p _work evidence ocaml/gen
python3 tools/gen_rtl.py --if-possible || true
(cd coq && coq_makefile -f _CoqProject -o Makefile && timeout 3000 make -j16)
python3 - <<'PY'
import sys
sys.path.insert(0, 'tools')
import vlib
exe, log = vlib.ocaml_build()
if exe is None:
    print(log)
    sys.exit(1)
print('engines built:', exe)
PY
