#!/bin/sh
# Build the framework from files on disk only (offline): Coq development (full .vo build), extraction, OCaml engines.
set -e
cd "$(dirname "$0")"
mkdir -p _work evidence ocaml/gen
python3 - <<'PY'
import sys, os
sys.path.insert(0, 'tools')
import vlib
vlib.design_session()               # regenerate coq/gen/*.v from /repo's Verilog (data for the RTL theorems) under the design lock
ok, log = vlib.coq_make([], timeout=3000)   # full .vo build of everything in coq/_CoqProject
print(log[-3000:])
if not ok:
    print('setup: Coq build failed')
    sys.exit(1)
exe, log = vlib.ocaml_build()
if exe is None:
    print(log)
    sys.exit(1)
print('engines built:', exe)
PY
